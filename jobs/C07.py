# C07 Metadata and namespace operations behave like a sequential model (name tables).
from engine import Job
LEVEL = 'other'
TRUSTED = ['Unicode NFC normalisation tables (utf8proc)']
ASSUMPTIONS = ['hash table shapes enumerated (2 buckets, up to 3+2 entries); ids symbolic (a permutation); the hash function is replaced by its contract (range, ghost key)']
EXPLANATION = 'name hash table operations enforced against an abstract (bucket,id) view: delete removes exactly one entry, renumbers later ids, keeps order'
HF = ['src/drivers/ncmpio/ncmpio_hash_func.c']

def jobs(tier, ws):
    js = []
    shapes = [(1, 0), (2, 1), (3, 1), (2, 2)] if tier == 'quick' else [(1, 0), (1, 1), (2, 0), (2, 1), (3, 1), (2, 2), (3, 2), (3, 3)]
    for b0, b1 in shapes:
        js.append(Job('C07/ncmpio_hash_delete/buckets%d_%d' % (b0, b1), 'C07', HF, 'C07_hash.c', enforce='ncmpio_hash_delete',
                      replace=['ncmpio_Bernstein_hash'], defines=['-DNB0=%d' % b0, '-DNB1=%d' % b1],
                      canaries=['deleted', 'not_found'] + (['bucket_emptied'] if 1 in (b0, b1) else []), unwind=9, kind='bounded', solver=['--sat-solver', 'cadical'],
                      bound='2 buckets with %d and %d entries' % (b0, b1), timeout=600))
    for b0, b1 in ([(0, 1), (4, 0), (2, 1)] if tier == 'quick' else [(0, 0), (0, 1), (1, 0), (4, 0), (0, 4), (2, 1), (3, 3), (4, 4)]):
        js.append(Job('C07/ncmpio_hash_insert/buckets%d_%d' % (b0, b1), 'C07', HF, 'C07_hash.c', enforce='ncmpio_hash_insert',
                      replace=['ncmpio_Bernstein_hash'], defines=['-DH_insert', '-DNB0=%d' % b0, '-DNB1=%d' % b1],
                      canaries=(['first_in_bucket'] if 0 in (b0, b1) else []) + (['list_grown'] if 4 in (b0, b1) else []), unwind=9, kind='bounded', solver=['--sat-solver', 'cadical'],
                      bound='2 buckets with %d and %d entries' % (b0, b1), timeout=600))
    for b0, b1 in ([(1, 0), (2, 1), (4, 1)] if tier == 'quick' else [(1, 0), (1, 1), (2, 0), (2, 1), (3, 1), (2, 2), (4, 1), (1, 4), (3, 3)]):
        js.append(Job('C07/ncmpio_hash_replace/buckets%d_%d' % (b0, b1), 'C07', HF, 'C07_hash.c', enforce='ncmpio_hash_replace',
                      replace=['ncmpio_Bernstein_hash'], defines=['-DH_replace', '-DNB0=%d' % b0, '-DNB1=%d' % b1],
                      canaries=['moved_to_other_bucket', 'same_bucket', 'not_found'] + (['bucket_emptied'] if 1 in (b0, b1) else []), unwind=9, kind='bounded', solver=['--sat-solver', 'cadical'],
                      bound='2 buckets with %d and %d entries' % (b0, b1), timeout=600))
    return js
