# C07 Metadata and namespace operations behave like a sequential model (name tables).
from engine import Job
LEVEL = 'other'
TRUSTED = ['Unicode NFC normalisation tables (utf8proc)']
ASSUMPTIONS = ['hash table shapes enumerated (2 buckets, up to 3+2 entries); ids symbolic (a permutation); the hash function is replaced by its contract (range, ghost key)']
EXPLANATION = 'name hash table operations enforced against an abstract (bucket,id) view: delete removes exactly one entry, renumbers later ids, keeps order'
HF = ['src/drivers/ncmpio/ncmpio_hash_func.c']

def copy_att_job(prop):
    return Job('%s/ncmpio_copy_att' % prop, prop, ['src/drivers/ncmpio/ncmpio_attr.m4', 'src/drivers/common/error_mpi2nc.c'], 'C07_attr.c', enforce='ncmpio_copy_att', replace=['ncmpio_NC_findattr'], extra_src=['stubs/mpi_model.c'],
               defines=['-DH_copy'], canaries=['grown_in_place', 'shorter_bytes_more_elements', 'appended', 'needs_define_mode', 'self_copy'], unwind=26, kind='bounded', timeout=600, solver=['--sat-solver', 'cadical'],
               bound='attribute tables of 2 entries; source and destination attributes NC_BYTE or NC_INT with 0..4 elements; lookup results, mode flags symbolic; safe mode off',
               assumptions=['ncmpio_copy_att: ncmpii_utf8_normalize (utf8proc), ncmpio_hash_insert and ncmpio_write_header are harness stubs that record their arguments; ncmpio_NC_findattr by (assumed) contract; copied bytes themselves not checked (CBMC memcpy model with symbolic length)'])

def jobs(tier, ws):
    js = []
    shapes = [(1, 0), (2, 1), (3, 1), (2, 2)] if tier == 'quick' else [(1, 0), (1, 1), (2, 0), (2, 1), (3, 1), (2, 2), (3, 2), (3, 3)]
    for b0, b1 in shapes:
        js.append(Job('C07/ncmpio_hash_delete/buckets%d_%d' % (b0, b1), 'C07', HF, 'C07_hash.c', enforce='ncmpio_hash_delete',
                      replace=['ncmpio_Bernstein_hash'], defines=['-DNB0=%d' % b0, '-DNB1=%d' % b1],
                      canaries=['deleted', 'not_found'] + (['bucket_emptied'] if 1 in (b0, b1) else []), unwind=9, kind='bounded', solver=['--sat-solver', 'cadical'],
                      bound='2 buckets with %d and %d entries' % (b0, b1), timeout=600))
    for b0, b1 in ([(0, 1), (4, 0), (2, 1)] if tier == 'quick' else [(0, 0), (0, 1), (1, 0), (4, 0), (0, 4), (2, 1), (3, 3)]):
        js.append(Job('C07/ncmpio_hash_insert/buckets%d_%d' % (b0, b1), 'C07', HF, 'C07_hash.c', enforce='ncmpio_hash_insert',
                      replace=['ncmpio_Bernstein_hash'], defines=['-DH_insert', '-DNB0=%d' % b0, '-DNB1=%d' % b1],
                      canaries=(['first_in_bucket'] if 0 in (b0, b1) else []) + (['list_grown'] if 4 in (b0, b1) else []), unwind=9, kind='bounded', solver=['--sat-solver', 'cadical'],
                      bound='2 buckets with %d and %d entries' % (b0, b1), timeout=600))
    for b0, b1 in ([(1, 0), (2, 1), (4, 1)] if tier == 'quick' else [(1, 0), (1, 1), (2, 0), (2, 1), (3, 1), (2, 2), (4, 1), (1, 4), (3, 3)]):
        js.append(Job('C07/ncmpio_hash_replace/buckets%d_%d' % (b0, b1), 'C07', HF, 'C07_hash.c', enforce='ncmpio_hash_replace',
                      replace=['ncmpio_Bernstein_hash'], defines=['-DH_replace', '-DNB0=%d' % b0, '-DNB1=%d' % b1],
                      canaries=['moved_to_other_bucket', 'same_bucket', 'not_found'] + (['bucket_emptied'] if 1 in (b0, b1) else []), unwind=9, kind='bounded', solver=['--sat-solver', 'cadical'],
                      bound='2 buckets with %d and %d entries' % (b0, b1), timeout=600))
    AT = ['src/drivers/ncmpio/ncmpio_attr.m4', 'src/drivers/common/error_mpi2nc.c']
    js.append(Job('C07/ncmpio_rename_att', 'C07', AT, 'C07_attr.c', enforce='ncmpio_rename_att', replace=['ncmpio_NC_findattr'], extra_src=['stubs/mpi_model.c'],
                  canaries=['renamed_in_data_mode', 'renamed_in_define_mode', 'name_in_use', 'longer_in_data_mode', 'bad_name'], unwind=26, kind='bounded', timeout=600, solver=['--sat-solver', 'cadical'],
                  bound='attribute tables of 2 entries (global and one variable), normalised names of <= 3 characters; lookup results, mode flags symbolic; safe mode off',
                  assumptions=['ncmpio_rename_att: ncmpii_utf8_normalize (utf8proc), ncmpio_hash_replace and ncmpio_write_header are harness stubs that record their arguments; ncmpio_NC_findattr by (assumed) contract']))
    js.append(copy_att_job('C07'))
    import C04
    js += [j for j in C04.jobs(tier, ws, prop='C07') if 'longest_legal_name' in j.name]   # a name of exactly NC_MAX_NAME bytes is found again after close and reopen (seed C07_m4)
    return js
