# C05 Record count stays coherent across processes, memory and file header.
from engine import Job
LEVEL = 'proof'
TRUSTED = ['stubs/mpi_model.c: MPI_Allreduce(MAX) delivers on every rank the same agreed value >= the local contribution; all ranks make the call (C08)']
ASSUMPTIONS = ['statistics counters below 2^62', 'malloc never fails']
EXPLANATION = 'functions that maintain numrecs enforced against: never decreases, equals max/agreed maximum, header field written, dirty flag protocol'
MODEL = ['stubs/mpi_model.c']
COMMON = ['src/drivers/common/error_mpi2nc.c', 'src/drivers/common/ncx.m4']

def jobs(tier, ws, prop='C05'):
    js = []
    js.append(Job(prop + '/ncmpio_write_numrecs', prop, ['src/drivers/ncmpio/ncmpio_sync.c'] + COMMON, 'C11_write_numrecs.c',
                  enforce='ncmpio_write_numrecs', defines=['-DENFORCE_ncmpio_write_numrecs'], extra_src=MODEL,
                  canaries=['wrote_ok', 'failure_reported', 'eintoverflow', 'nothing_to_do'], unwind=26, kind='proof'))
    js.append(Job(prop + '/ncmpio_sync_numrecs', prop, ['src/drivers/ncmpio/ncmpio_sync.c'] + COMMON, 'C05_sync_numrecs.c',
                  enforce='ncmpio_sync_numrecs', replace=['ncmpio_write_numrecs'], defines=['-DENFORCE_ncmpio_sync_numrecs'], extra_src=MODEL,
                  canaries=['synced_multi', 'wrote', 'eindefine', 'eperm', 'failure_reported'], unwind=26, kind='proof'))
    GP = ['src/drivers/ncmpio/ncmpio_getput.m4'] + COMMON
    callees = ['ncmpii_buftype_decode', 'ncmpii_need_convert', 'ncmpii_create_imaptype', 'ncmpii_in_swapn', 'ncmpio_pack_xbuf',
               'ncmpii_nc2mpitype', 'ncmpio_filetype_create_vars', 'ncmpio_file_set_view', 'ncmpio_read_write', 'ncmpio_write_numrecs']
    for st0 in ([0, 1, 3] if tier == 'quick' else [0, 1, 2, 3, 7, 1000]):
        js.append(Job(prop + '/put_varm/stride%d' % st0, prop, GP, 'C05_put_varm.c', enforce='ncmpio_getput.c:put_varm', replace=callees, extra_src=MODEL,
                      defines=['-DSTRIDE0=%d' % st0],
                      canaries=['coll_grew', 'indep_grew', 'erange', 'swapped_in_place', 'failure_reported', 'zero_req'], unwind=26, kind='proof', object_bits=11, timeout=900,
                      assumptions=['put_varm: callee contracts of getput_callees.h are assumed unless listed as enforced; instances: ndims=2, record-dimension stride enumerated, no intra-node aggregation (my_aggr<0)']))
    import C02
    js += C02.commit_jobs(tier, prop, only=[(2, 2), (3, 5)] if tier == 'quick' else None) if prop == 'C05' else []   # F20: record count covers every selected record put
    return js
