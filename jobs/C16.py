# C16 Fill-value semantics.
from engine import Job
LEVEL = 'other'
TRUSTED = ['MPI-IO writes the bytes handed to it at the offset given']
ASSUMPTIONS = ['process count enumerated; rank, variable length, record number symbolic', 'fill_var_buf replaced by its contract in fill_var_rec']
EXPLANATION = 'fill functions enforced against: each process fills exactly its share (contiguous partition in rank order), only fill-mode variables are touched, record count updated'
FL_ = ['src/drivers/ncmpio/ncmpio_fill.c', 'src/drivers/common/error_mpi2nc.c']
MODEL = ['stubs/mpi_model.c']

def jobs(tier, ws, prop='C16'):
    js = []
    # the single-process path (independent write, no Allreduce) is a different call sequence: not covered by these clauses
    for np_ in ([2, 3] if tier == 'quick' else [2, 3, 4, 5, 8]):
        for rk in range(np_):
            for xsz in ((4,) if tier == 'quick' else (1, 2, 4, 8)):
                js.append(Job('%s/fill_var_rec/nprocs%d_rank%d_xsz%d' % (prop, np_, rk, xsz), prop, FL_, 'C16_fill_var_rec.c', enforce='ncmpio_fill.c:fill_var_rec',
                              replace=['ncmpio_fill.c:fill_var_buf', 'ncmpio_write_numrecs'], defines=['-DNPROCS=%d' % np_, '-DRANK=%d' % rk, '-DXSZ=%d' % xsz], extra_src=MODEL,
                              canaries=['grew', 'fixed_filled', 'failure_reported', 'bad_fill_attribute'], unwind=40, kind='bounded', timeout=240,
                              bound='%d processes, rank %d, element size %d (enumerated); element count (< 100000), record number symbolic' % (np_, rk, xsz)))
    for np_, rk, nr, no in ([(2, 1, 2, 1), (3, 0, 1, 0), (1, 0, 0, 0)] if tier == 'quick' else [(2, 0, 2, 1), (2, 1, 2, 1), (3, 0, 1, 0), (3, 2, 2, 0), (1, 0, 0, 0), (1, 0, 3, 1), (4, 3, 1, 2)]):
        js.append(Job('%s/fillerup_aggregate/nprocs%d_rank%d_nrecs%d_existing%d' % (prop, np_, rk, nr, no), prop, FL_, 'C16_fillerup.c', enforce='ncmpio_fill.c:fillerup_aggregate',
                      replace=['ncmpio_fill.c:fill_var_buf'], defines=['-DNPROCS=%d' % np_, '-DRANK=%d' % rk, '-DNRECS=%d' % nr, '-DNOLDV=%d' % no, '-DMPI_MODEL_RECORD_HINDEXED=8'], extra_src=MODEL,
                      canaries=(['two_segments'] if nr <= 1 else ['segment_per_record']) + ['nothing_to_fill', 'write_failure_reported', 'bad_fill_value'], unwind=40, kind='bounded', timeout=600, solver=['--sat-solver', 'cadical'],
                      bound='%d processes, rank %d, %d existing records, %d existing + 2 new variables of symbolic kind / fill mode / length (< 100000 elements of 4 bytes)' % (np_, rk, nr, no)))
    return js
