# C09 Numeric type conversion and range checking are exact.
# Contracts are generated from the (external type, memory type) pair and the spec
# (conv_spec.h); the list of functions is read off the regenerated ncx.c.
import os, re, sys, json, subprocess
from engine import Job, Infra, VERIF, REPO, sh

LEVEL = 'proof'
TRUSTED = ['IEEE-754 round-to-nearest-even as modelled by CBMC float theory',
           'little-endian host (asserted in harness against config.h WORDS_BIGENDIAN)',
           'CBMC built-in memcpy model']
ASSUMPTIONS = ['fillp is non-NULL and points to xsz readable bytes (true at every call site: ncmpio_util.c, ncmpio_attr.m4, convert_swap.m4)',
               'values strictly between TMAX and TMAX+1 (resp. TMIN-1 and TMIN) for float->integer conversions may be either converted by truncation or rejected: the property statement does not decide them',
               'double->float: finite values with FLT_MAX < |v| < 2^128, and +-Inf, may be either rejected or rounded',
               'putn/getn/pad_* array loops: bounded stand-in (n<=3), listed under bounded, not counted as proved']
EXPLANATION = ('every scalar ncmpix_put_/get_ conversion function of the regenerated ncx.c is checked against a contract generated '
               'from its (external,memory) type pair over its full input domain (loop-free: unbounded proof); array loops are bounded')

MEM = {  # name: (ctype, bits, kind, default fill when used as memory type)
    'schar': ('signed char', 8, 's', 'NC_FILL_BYTE'), 'uchar': ('unsigned char', 8, 'u', 'NC_FILL_UBYTE'),
    'short': ('short', 16, 's', 'NC_FILL_SHORT'), 'ushort': ('unsigned short', 16, 'u', 'NC_FILL_USHORT'),
    'int': ('int', 32, 's', 'NC_FILL_INT'), 'uint': ('unsigned int', 32, 'u', 'NC_FILL_UINT'),
    'long': ('long', 64, 's', 'NC_FILL_INT'), 'longlong': ('long long', 64, 's', 'NC_FILL_INT64'),
    'ulonglong': ('unsigned long long', 64, 'u', 'NC_FILL_UINT64'),
    'float': ('float', 32, 'f', 'NC_FILL_FLOAT'), 'double': ('double', 64, 'f', 'NC_FILL_DOUBLE')}
EXT = {'BYTE': (8, 's'), 'UBYTE': (8, 'u'), 'SHORT': (16, 's'), 'USHORT': (16, 'u'), 'INT': (32, 's'), 'UINT': (32, 'u'),
       'INT64': (64, 's'), 'UINT64': (64, 'u'), 'FLOAT': (32, 'f'), 'DOUBLE': (64, 'f')}


def irange(bits, kind):
    return (-(1 << (bits - 1)), (1 << (bits - 1)) - 1) if kind == 's' else (0, (1 << bits) - 1)


def lit128(v):
    if v < 0:
        return '(-(__int128)%dULL)' % (-v)
    return '((__int128)%dULL)' % v


def dbl(v):
    return float(v).hex()


def spec_clauses(sbits, skind, SV, dbits, dkind, DV):
    """accept / reject / exact expressions for source value SV (kind skind) -> destination DV."""
    if skind != 'f' and dkind != 'f':
        lo, hi = irange(dbits, dkind)
        W = '((__int128)(%s))' % SV
        acc = '(%s >= %s && %s <= %s)' % (W, lit128(lo), W, lit128(hi))
        return acc, '(!%s)' % acc, '((__int128)(%s) == %s)' % (DV, W), irange(sbits, skind)[0] < lo or irange(sbits, skind)[1] > hi
    if skind == 'f' and dkind != 'f':
        lo, hi = irange(dbits, dkind)
        d = '((double)(%s))' % SV
        if dbits <= 32:
            acc = '(%s >= %s && %s <= %s)' % (d, dbl(lo), d, dbl(hi))
            rlo = '%s <= %s' % (d, dbl(lo - 1))
        else:
            acc = '(%s >= %s && %s < %s)' % (d, dbl(lo), d, dbl(hi + 1))
            rlo = ('%s < %s' % (d, dbl(lo))) if dkind == 's' else ('%s <= -1.0' % d)
        rej = '(%s != %s || %s >= %s || %s)' % (d, d, d, dbl(hi + 1), rlo)
        cast = 'long long' if dkind == 's' else 'unsigned long long'
        exact = 'IMPLIES(!%s, (%s)(%s) == (%s)(%s))' % (rej, cast, DV, cast, SV)
        return acc, rej, exact, True
    if skind != 'f' and dkind == 'f':
        if dbits == 32:
            exact = '(spec_f2bits(%s) == spec_f2bits((float)(%s)))' % (DV, SV)
        else:
            exact = '(spec_d2bits(%s) == spec_d2bits((double)(%s)))' % (DV, SV)
        return '1', '0', exact, False
    # float -> float
    nan_s = '((%s) != (%s))' % (SV, SV)
    nan_d = '((%s) != (%s))' % (DV, DV)
    if dbits == 32 and sbits == 64:
        acc = '(%s || ((%s) >= -0x1.fffffep+127 && (%s) <= 0x1.fffffep+127))' % (nan_s, SV, SV)
        rej = '(!%s && ((%s) >= 0x1p128 || (%s) <= -0x1p128) && (%s) != (1.0/0.0) && (%s) != (-1.0/0.0))' % (nan_s, SV, SV, SV, SV)
        exact = '(%s ? %s : spec_f2bits(%s) == spec_f2bits((float)(%s)))' % (nan_s, nan_d, DV, SV)
        return acc, rej, exact, True
    if dbits == 32:
        exact = '(%s ? %s : spec_f2bits(%s) == spec_f2bits((float)(%s)))' % (nan_s, nan_d, DV, SV)
    else:
        exact = '(%s ? %s : spec_d2bits(%s) == spec_d2bits((double)(%s)))' % (nan_s, nan_d, DV, SV)
    # +-Inf: the documents are silent on whether an infinity is "representable"; either outcome admitted
    return '((%s) != (1.0/0.0) && (%s) != (-1.0/0.0))' % (SV, SV), '0', exact, None


def ext_value(X, ptr):
    bits, kind = EXT[X]
    n = bits // 8
    if kind == 's':
        return '(spec_sext(spec_be((const unsigned char*)(%s), %d), %d))' % (ptr, n, bits)
    if kind == 'u':
        return '(spec_be((const unsigned char*)(%s), %d))' % (ptr, n)
    if bits == 32:
        return '(spec_bits2f((uint32_t)spec_be((const unsigned char*)(%s), 4)))' % ptr
    return '(spec_bits2d(spec_be((const unsigned char*)(%s), 8)))' % ptr


def gen_scalar(ws, fn, dirn, X, T, nparams, ncx_c, is_static):
    ctype, mbits, mkind, mfill = MEM[T]
    xbits, xkind = EXT[X]
    n = xbits // 8
    if dirn == 'put':
        acc, rej, exact, can_erange = spec_clauses(mbits, mkind, '(*ip)', xbits, xkind, ext_value(X, 'xp'))
        fill = '(spec_be((const unsigned char*)xp, %d) == spec_le((const unsigned char*)fillp, %d))' % (n, n)
        params = 'void *xp, const %s *ip, void *fillp' % ctype
        assigns = '__CPROVER_object_whole(xp)'
    else:
        acc, rej, exact, can_erange = spec_clauses(xbits, xkind, ext_value(X, 'xp'), mbits, mkind, '(*ip)')
        if mkind == 'f':
            fb = 'spec_f2bits' if mbits == 32 else 'spec_d2bits'
            fill = '(%s(*ip) == %s(%s))' % (fb, fb, mfill)
        else:
            fill = '((*ip) == (%s)%s)' % (ctype, mfill)
        params = 'const void *xp, %s *ip' % ctype + (', void *fillp' if nparams == 3 else '')
        assigns = '*ip'
    if mkind == 'f':
        tie_v = '(%s(*ip) == (%s)IN_vbits)' % (('spec_f2bits', 'uint32_t') if mbits == 32 else ('spec_d2bits', 'uint64_t'))
        mk_v = ('spec_bits2f((uint32_t)(REPLAY_IN_vbits))' if mbits == 32 else 'spec_bits2d((uint64_t)(REPLAY_IN_vbits))')
    else:
        tie_v = '((unsigned long long)(*ip) == IN_vbits)'
        mk_v = '(%s)(REPLAY_IN_vbits)' % ctype
    has_fill = (dirn == 'put' or nparams == 3)
    src = []
    A = src.append
    A('/* generated by jobs/C09.py for %s: contract from (ext=%s, mem=%s, %s) and conv_spec.h */' % (fn, X, T, dirn))
    A('#include <config.h>\n#include <stddef.h>\n#include <string.h>\n#include <stdio.h>\n#include <pnetcdf.h>\n#include "ncx.h"\n#include "conv_spec.h"')
    A('#ifdef WORDS_BIGENDIAN\n#error "spec assumes a little-endian host"\n#endif')
    A('#pragma CPROVER check push\n#pragma CPROVER check disable "conversion"')
    A('typedef %s T;' % ctype)
    A('#define XSZ %d' % n)
    A('unsigned long long IN_vbits, IN_xbits, IN_fillbits;')
    A('#define CL_retcode (ret == NC_NOERR || ret == NC_ERANGE)')
    A('#define CL_accept_representable IMPLIES(%s, ret == NC_NOERR)' % acc)
    A('#define CL_reject_unrepresentable IMPLIES(%s, ret == NC_ERANGE)' % rej)
    A('#define CL_exact IMPLIES(ret == NC_NOERR, %s)' % exact)
    A('#define CL_erange_fill IMPLIES(ret == NC_ERANGE, %s)' % fill)
    A('#ifndef REPLAY_NATIVE')
    A('#define FN %s%s' % ('__CPROVER_file_local_ncx_c_' if is_static else '', fn))
    A('int FN(%s)' % params)
    A('__CPROVER_requires(__CPROVER_is_fresh(xp, XSZ))')
    A('__CPROVER_requires(__CPROVER_is_fresh(ip, sizeof(T)))')
    if has_fill:
        A('__CPROVER_requires(__CPROVER_is_fresh(fillp, XSZ))')
        A('__CPROVER_requires(spec_le((const unsigned char*)fillp, XSZ) == IN_fillbits) /* tie: names the input for replay */')
    A('__CPROVER_requires(%s) /* tie */' % (tie_v if dirn == 'put' else '1'))
    A('__CPROVER_requires(spec_be((const unsigned char*)xp, XSZ) == IN_xbits) /* tie */')
    if dirn == 'get' and xkind == 'f' and mkind != 'f' and mbits == 64:
        # known finding F16: input class "external value is exactly 2^63 (signed) / 2^64 (unsigned)"
        A('#ifdef EXCLUDE_F16')
        A('__CPROVER_requires(((double)%s) != %s)' % (ext_value(X, 'xp'), dbl(1 << (63 if mkind == 's' else 64))))
        A('#endif')
    A('__CPROVER_assigns(%s)' % assigns)
    for c in ('retcode', 'accept_representable', 'reject_unrepresentable', 'exact', 'erange_fill'):
        A('__CPROVER_ensures(CL_%s) /*@%s*/' % (c, c))
    A(';')
    A('unsigned long long nondet_ull(void);')
    A('void harness(void) {')
    A('  IN_vbits = nondet_ull(); IN_xbits = nondet_ull(); IN_fillbits = nondet_ull();')
    A('  %s; int r;' % '; '.join(p.strip() for p in params.split(',')))
    A('  r = FN(%s);' % ', '.join(p.strip().split('*')[-1].strip() for p in params.split(',')))
    A('  __CPROVER_assert(r != NC_NOERR, "canary:noerr");')
    if can_erange:
        A('  __CPROVER_assert(r != NC_ERANGE, "canary:erange");')
    A('}')
    A('#else /* native replay against the real source */')
    A('#include "%s"' % ncx_c)
    A('int main(void) {')
    A('  unsigned char xbuf[8], fillbuf[8]; int i, bad = 0; T v = %s; T *ip = &v;' % (mk_v if dirn == 'put' else '0'))
    A('  for (i = 0; i < XSZ; i++) { xbuf[i] = (unsigned char)((unsigned long long)(REPLAY_IN_xbits) >> (8*(XSZ-1-i))); fillbuf[i] = (unsigned char)((unsigned long long)(REPLAY_IN_fillbits) >> (8*i)); }')
    A('  void *xp = xbuf; void *fillp = fillbuf; (void)fillp;')
    A('  int ret = %s(%s);' % (fn, 'xp, ip' + (', fillp' if has_fill else '')))
    for c in ('retcode', 'accept_representable', 'reject_unrepresentable', 'exact', 'erange_fill'):
        A('  { int ok = (CL_%s) ? 1 : 0; printf("CLAUSE %s %%d\\n", ok); bad |= !ok; }' % (c, c))
    A('  printf("ret=%d\\n", ret); return bad; }')
    A('#endif')
    text = '\n'.join(src)
    # clauses are written over `ret`; inside ensures `ret` is the return value
    text = text.replace('#define CL_retcode', '#ifndef REPLAY_NATIVE\n#define ret __CPROVER_return_value\n#endif\n#define CL_retcode', 1)
    d = os.path.join(ws.dir, 'C09gen')
    os.makedirs(d, exist_ok=True)
    p = os.path.join(d, 'h_%s.c' % fn)
    open(p, 'w').write(text)
    return p, can_erange


def make_replay(fn, hpath, ncx_c):
    def replay(ws, r, ob, inputs):
        vals = {}
        for k in ('IN_vbits', 'IN_xbits', 'IN_fillbits'):
            v = inputs.get(k)
            if v is None:
                return 'not-reproduced', 'input %s not found in counterexample' % k, None
            vals[k] = int(v['binary'], 2) if v.get('binary') else int(v['data'])
        exe = os.path.join(ws.dir, 'replay_' + fn)
        cmd = ['gcc', '-O0', '-w', '-fsanitize=undefined,float-cast-overflow', '-fno-sanitize-recover=all', '-DREPLAY_NATIVE'] + \
              ['-DREPLAY_%s=%dULL' % (k, v) for k, v in vals.items()] + \
              ['-DHAVE_CONFIG_H', '-I' + ws.geninc(), '-I%s/src/include' % REPO, '-I%s/src/drivers/include' % REPO,
               '-I%s/src/drivers/common' % REPO, '-I/usr/lib/x86_64-linux-gnu/openmpi/include', '-I%s/spec' % VERIF,
               hpath, '-o', exe, '-lm']
        rc, so, se, _ = sh(cmd, 120)
        if rc != 0:
            return 'not-reproduced', 'native build failed: ' + se[-300:], None
        rc, so, se, _ = sh([exe], 20)
        out = (so + se)[-1500:]
        nm = ob['name']
        if 'runtime error' in out:
            return 'confirmed', 'real code on this input: UBSan reports ' + [l for l in out.split('\n') if 'runtime error' in l][0][-200:], out
        if re.search(r'CLAUSE %s 0' % re.escape(nm), out):
            return 'confirmed', 'real code violates clause %s on this input' % nm, out
        return 'not-reproduced', 'native run of the real function satisfied the clause / showed no UB', out
    return replay


def list_functions(ws, ncx_c):
    # functions actually compiled in this configuration: run the preprocessor first
    rc, txt, se, _ = sh(['gcc', '-E', '-P', '-DHAVE_CONFIG_H', '-I' + ws.geninc(), '-I%s/src/include' % REPO,
                         '-I%s/src/drivers/include' % REPO, '-I%s/src/drivers/common' % REPO,
                         '-I/usr/lib/x86_64-linux-gnu/openmpi/include', ncx_c], 120)
    if rc != 0:
        raise Infra('cpp failed on ncx.c: ' + se[-300:])
    out = []
    for m in re.finditer(r'^(?:static\s+)?int\s+(ncmpix_(put|get)_NC_([A-Z0-9]+)_([a-z]+))\(([^)]*)\)\s*\{', txt, re.M):
        out.append((m.group(1), m.group(2), m.group(3), m.group(4), len(m.group(5).split(',')), m.group(0).startswith('static')))
    return out


def jobs(tier, ws):
    ncx_c = ws.source('src/drivers/common/ncx.m4')
    fns = list_functions(ws, ncx_c)
    if len(fns) < 100:
        raise Infra('only %d scalar conversion functions found in regenerated ncx.c (expected ~176)' % len(fns))
    js = []
    for fn, dirn, X, T, npar, is_static in fns:
        if X not in EXT or T not in MEM:
            raise Infra('unknown type pair in %s' % fn)
        hp, can_erange = gen_scalar(ws, fn, dirn, X, T, npar, ncx_c, is_static)
        fl = EXT[X][1] == 'f' or MEM[T][2] == 'f'
        js.append(Job('C09/' + fn, 'C09', ['src/drivers/common/ncx.m4'], hp, enforce=('ncx.c:' + fn) if is_static else fn,
                      canaries=['noerr'] + (['erange'] if can_erange else []), unwind=4, kind='proof',
                      checks=['--conversion-check'] if fl else [], timeout=300, mem_gb=6,
                      replay=make_replay(fn, hp, ncx_c), function_label=fn,
                      arbiter=r'float to (signed|unsigned) integer type conversion'))
    return js


# ---------------------------------------------------------------------------------------------
# array conversions: ncmpix_[pad_]getn_/putn_  (bounded: NELEMS elements, loop fully unwound)
NELEMS = 3

def gen_array(ws, fn, pad, dirn, X, T, nparams, ncx_c, is_static):
    ctype, mbits, mkind, mfill = MEM[T]
    xbits, xkind = EXT[X]
    n = xbits // 8
    total = NELEMS * n
    padn = (4 - total % 4) % 4 if pad else 0
    el = []
    for i in range(NELEMS):
        xptr = '(xbuf + %d)' % (i * n)
        if dirn == 'put':
            acc, rej, exact, can_erange = spec_clauses(mbits, mkind, '(tbuf[%d])' % i, xbits, xkind, ext_value(X, xptr))
            filleq = '(spec_be(%s, %d) == spec_le(fillv, %d))' % (xptr, n, n)
        else:
            acc, rej, exact, can_erange = spec_clauses(xbits, xkind, ext_value(X, '(xin + %d)' % (i * n)), mbits, mkind, '(tbuf[%d])' % i)
            if mkind == 'f':
                fb = 'spec_f2bits' if mbits == 32 else 'spec_d2bits'
                filleq = '(%s(tbuf[%d]) == %s(%s))' % (fb, i, fb, mfill)
            else:
                filleq = '(tbuf[%d] == (%s)%s)' % (i, ctype, mfill)
        el.append((acc, rej, exact, filleq))
    src = []
    A = src.append
    A('/* generated by jobs/C09.py for %s (%d elements) */' % (fn, NELEMS))
    A('#include <config.h>\n#include <stddef.h>\n#include <string.h>\n#include <pnetcdf.h>\n#include "ncx.h"\n#include "conv_spec.h"')
    A('#pragma CPROVER check push\n#pragma CPROVER check disable "conversion"')
    A('typedef %s T;' % ctype)
    A('static unsigned char xbuf[%d], xin[%d], fillv[8]; static T tbuf[%d]; void *g_xp;' % (total + padn + 4, total + padn + 4, NELEMS))
    for i, (acc, rej, exact, filleq) in enumerate(el):
        A('#define ACC%d %s\n#define REJ%d %s\n#define EXACT%d %s\n#define FILLEQ%d %s' % (i, acc, i, rej, i, exact, i, filleq))
    anyrej = ' || '.join('REJ%d' % i for i in range(NELEMS))
    allacc = ' && '.join('ACC%d' % i for i in range(NELEMS))
    fnm = ('__CPROVER_file_local_ncx_c_' if is_static else '') + fn
    if dirn == 'put':
        params = 'void **xpp, MPI_Offset nelems, const T *tp, void *fillp'
    else:
        params = 'const void **xpp, MPI_Offset nelems, T *tp' + (', void *fillp' if nparams == 4 else '')
    A('int %s(%s)' % (fnm, params))
    A('__CPROVER_requires(nelems == %d && *xpp == xbuf && tp == tbuf%s)' % (NELEMS, ' && fillp == fillv' if (dirn == 'put' or nparams == 4) else ''))
    if dirn == 'get' and xkind == 'f' and mkind != 'f' and mbits == 64:
        A('#ifdef EXCLUDE_F16')
        for i in range(NELEMS):
            A('__CPROVER_requires(((double)%s) != %s)' % (ext_value(X, '(xbuf + %d)' % (i * n)), dbl(1 << (63 if mkind == 's' else 64))))
        A('#endif')
    A('__CPROVER_assigns(*xpp, %s)' % ('__CPROVER_object_whole(xbuf)' if dirn == 'put' else '__CPROVER_object_whole(tbuf)'))
    A('__CPROVER_ensures(__CPROVER_return_value == NC_NOERR || __CPROVER_return_value == NC_ERANGE) /*@retcode*/')
    A('__CPROVER_ensures(IMPLIES(%s, __CPROVER_return_value == NC_ERANGE)) /*@unrepresentable_element_reported*/' % anyrej)
    A('__CPROVER_ensures(IMPLIES(%s, __CPROVER_return_value == NC_NOERR)) /*@all_representable_no_error*/' % allacc)
    for i in range(NELEMS):
        A('__CPROVER_ensures(REJ%d ? FILLEQ%d : ACC%d ? (EXACT%d) : ((EXACT%d) || FILLEQ%d)) /*@element_%d_converted_or_filled_whatever_the_others*/' % (i, i, i, i, i, i, i))
    A('__CPROVER_ensures(*xpp == (void *)(xbuf + %d)) /*@pointer_advanced_by_elements_and_padding*/' % (total + padn))
    if dirn == 'put' and padn:
        A('__CPROVER_ensures(%s) /*@padding_bytes_zero*/' % ' && '.join('xbuf[%d] == 0' % (total + k) for k in range(padn)))
    A(';')
    A('unsigned char nondet_uchar(void);')
    A('void harness(void) {')
    A('  __CPROVER_havoc_slice(xbuf, sizeof(xbuf)); __CPROVER_havoc_slice(fillv, 8); __CPROVER_havoc_slice(tbuf, sizeof(tbuf));')
    A('  memcpy(xin, xbuf, sizeof(xbuf));')
    if dirn == 'put':
        A('  void *xp = xbuf; int r = %s(&xp, %d, tbuf, fillv);' % (fnm, NELEMS))
    else:
        A('  const void *xp = xbuf; int r = %s(&xp, %d, tbuf%s);' % (fnm, NELEMS, ', fillv' if nparams == 4 else ''))
    A('  __CPROVER_assert(r != NC_NOERR, "canary:noerr");')
    if el[0][3] is not None and any(e[1] != '0' and e[1] != '(!1)' for e in el) and can_erange:
        A('  __CPROVER_assert(r != NC_ERANGE, "canary:erange");')
    A('}')
    d = os.path.join(ws.dir, 'C09gen')
    os.makedirs(d, exist_ok=True)
    p = os.path.join(d, 'h_%s.c' % fn)
    open(p, 'w').write('\n'.join(src))
    return p, bool(can_erange)


def list_array_functions(ws, ncx_c):
    rc, txt, se, _ = sh(['gcc', '-E', '-P', '-DHAVE_CONFIG_H', '-I' + ws.geninc(), '-I%s/src/include' % REPO,
                         '-I%s/src/drivers/include' % REPO, '-I%s/src/drivers/common' % REPO,
                         '-I/usr/lib/x86_64-linux-gnu/openmpi/include', ncx_c], 120)
    out = []
    for m in re.finditer(r'^(?:static\s+)?int\s+(ncmpix_(pad_)?(putn|getn)_NC_([A-Z0-9]+)_([a-z]+))\(([^)]*)\)\s*\{', txt, re.M):
        if m.group(4) in EXT and m.group(5) in MEM:
            out.append((m.group(1), bool(m.group(2)), 'put' if m.group(3) == 'putn' else 'get', m.group(4), m.group(5), len(m.group(6).split(',')), m.group(0).startswith('static')))
    return out


_scalar_jobs = jobs

def jobs(tier, ws):
    js = _scalar_jobs(tier, ws)
    ncx_c = ws.source('src/drivers/common/ncx.m4')
    arr = list_array_functions(ws, ncx_c)
    if len(arr) < 200:
        raise Infra('only %d array conversion functions found in regenerated ncx.c (expected ~320)' % len(arr))
    for fn, pad, dirn, X, T, npar, is_static in arr:
        hp, can_erange = gen_array(ws, fn, pad, dirn, X, T, npar, ncx_c, is_static)
        fl = EXT[X][1] == 'f' or MEM[T][2] == 'f'
        js.append(Job('C09/' + fn, 'C09', ['src/drivers/common/ncx.m4'], hp, enforce=('ncx.c:' + fn) if is_static else fn,
                      canaries=['noerr'] + (['erange'] if can_erange else []), unwind=NELEMS + 3, kind='bounded', bound='%d elements' % NELEMS,
                      checks=['--conversion-check'] if fl else [], timeout=300, mem_gb=6, function_label=fn,
                      arbiter=r'float to (signed|unsigned) integer type conversion'))
    return js
