# C06 Redefinition preserves existing data; abort is all-or-nothing.
from engine import Job
LEVEL = 'other'
TRUSTED = ['MPI-IO; move_file_block moves the bytes it is asked to move (its own contract: see below / not yet enforced)']
ASSUMPTIONS = ['number of records and of variables enumerated; offsets, sizes and lengths symbolic']
EXPLANATION = 'data movement after a redefinition: callers of move_file_block enforced against tail-first order with old-layout sources and new-layout destinations; ordering of phases in ncmpio__enddef is checked in C03'
ED = ['src/drivers/ncmpio/ncmpio_enddef.c']

def jobs(tier, ws, prop='C06'):
    js = []
    for nr in ([1, 3] if tier == 'quick' else [0, 1, 2, 3, 4]):
        js.append(Job('%s/move_record_vars/nrecs%d' % (prop, nr), prop, ED, 'C06_moves.c', enforce='ncmpio_enddef.c:move_record_vars',
                      replace=['ncmpio_enddef.c:move_file_block'], defines=['-DH_rec', '-DNRECS=%d' % nr],
                      canaries=(['record_by_record'] if nr > 1 else []) + (['whole_section', 'failed'] if nr > 0 else []), unwind=10, kind='bounded',
                      bound='%d records; record sizes and section offsets symbolic (< 2^40)' % nr))
    for nv, no, ha, ra in ([(3, 2, 512, 4), (3, 1, 4, 512)] if tier == 'quick' else [(3, 2, 512, 4), (3, 1, 4, 512), (4, 2, 512, 512), (4, 3, 4, 4), (2, 2, 4096, 4), (3, 3, 512, 1024)]):
        js.append(Job('%s/NC_begins_redef/nvars%d_existing%d_halign%d_ralign%d' % (prop, nv, no, ha, ra), prop, ED, 'C06_begins.c', enforce='ncmpio_enddef.c:NC_begins',
                      replace=['ncmpio_hdr_len_NC'], defines=['-DNVARS=%d' % nv, '-DNOLD=%d' % no, '-DH_ALIGN=%d' % ha, '-DR_ALIGN=%d' % ra], extra_src=['stubs/mpi_model.c'],
                      canaries=['only_record_section_moves', 'header_extent_grows', 'nothing_moves', 'evarsize'], unwind=26, kind='bounded', timeout=600,
                      bound='redefinition: %d existing + %d added variables of symbolic kind and length (< 2^32), well-formed old layout with symbolic offsets (< 2^40), alignments %d/%d' % (no, nv - no, ha, ra)))
    for nv in ([3] if tier == 'quick' else [1, 2, 3, 4]):
        js.append(Job('%s/move_fixed_vars/nvars%d' % (prop, nv), prop, ED, 'C06_moves.c', enforce='ncmpio_enddef.c:move_fixed_vars',
                      replace=['ncmpio_enddef.c:move_file_block'], defines=['-DH_fix', '-DNVARS=%d' % nv],
                      canaries=(['two_moved'] if nv >= 2 else []) + ['nothing_moved', 'failed'], unwind=10, kind='bounded',
                      bound='%d variables of symbolic kind, offsets and lengths symbolic' % nv))
    for np_, ranks in ([(3, [0, 2]), (2, [1])] if tier == 'quick' else [(1, [0]), (2, [0, 1]), (3, [0, 1, 2]), (4, [0, 3]), (5, [4])]):
        for rk in ranks:
            js.append(Job('%s/move_file_block/nprocs%d_rank%d' % (prop, np_, rk), prop, ED + ['src/drivers/common/error_mpi2nc.c'], 'C06_moves.c', enforce='ncmpio_enddef.c:move_file_block',
                          defines=['-DH_block', '-DNPROCS=%d' % np_, '-DRANK=%d' % rk], extra_src=['stubs/mpi_model.c'],
                          canaries=['moved', 'failure_reported'] + (['idle_rank'] if rk == np_ - 1 and np_ > 1 else []), unwind=40, kind='bounded', timeout=300,
                          unwindset=['ncmpio_enddef.c:move_file_block.0:2'],
                          bound='%d processes, rank %d; block of at most 4096 bytes (one round); offsets symbolic' % (np_, rk)))
    if prop == 'C06':
        import C03, C08
        js.append(C08.close_files_job('C06'))
        import C14
        js += [j for j in C14.driver_mode_jobs('C06') if 'abort' in j.name]   # abort discards a redefinition without writing, removes a new file   # abort of a new file removes it, after both handles are closed
        js += [j for j in C03.jobs(tier, ws, prop='C06') if 'ncmpio__enddef' in j.name]   # which data movement enddef decides on (records re-strided whenever the record size grew)
    return js
