# C20 Offline utilities agree with the library and the format (validator part).
import os, re
from engine import Job, Infra, REPO
LEVEL = 'other'
TRUSTED = []
ASSUMPTIONS = ['only the validator (ncvalidator.c) has functions a contract can express; ncmpidiff/cdfdiff/ncmpidump/ncoffsets/ncmpigen are main()-driven programs whose property is about stdout and exit status over whole files: not decided (see DESIGN)',
               'types of the validator are extracted mechanically from ncvalidator.c on every run (everything before the first function)']
EXPLANATION = 'validator rule functions enforced against the same format spec the library functions are enforced against (agreement through the common spec)'
VAL = 'src/utils/ncvalidator/ncvalidator.c'

def valhead(ws):
    def gen():
        txt = open(os.path.join(REPO, VAL)).read()
        m = re.search(r'^\} bufferinfo;\s*$', txt, re.M)
        if not m:
            raise Infra('extraction anchor "} bufferinfo;" not found in ncvalidator.c')
        d = os.path.join(ws.dir, 'valhead'); os.makedirs(d, exist_ok=True)
        open(os.path.join(d, 'valhead.h'), 'w').write('/* extracted from %s: lines 1..%d (includes, macros, typedefs) */\n' % (VAL, txt[:m.end()].count('\n')) + txt[:m.end()] + '\n')
        return d
    return ws.once(('valhead',), gen)

def jobs(tier, ws):
    js = []
    d = valhead(ws) if ws is not None else '/nonexistent'
    for nv in ([2, 3] if tier == 'quick' else [1, 2, 3, 4]):
        js.append(Job('C20/val_NC_check_vlens/nvars%d' % nv, 'C20', [VAL], 'C20_validator.c', enforce='ncvalidator.c:val_NC_check_vlens',
                      replace=['ncvalidator.c:NC_check_vlen'], defines=['-DNVARS=%d' % nv, '-I' + d], tu_defines=['-Dmain=ncvalidator_main', '-include', '/verif/stubs/noprintf.h'],
                      canaries=['accepted', 'rejected'] + (['oversize_last_accepted'] if nv >= 2 else []), unwind=12, kind='bounded', timeout=300,
                      bound='%d variables of symbolic kind (fixed/record) and symbolic fit' % nv))
    return js
