# C18 Format size limits are enforced and 64-bit offsets are addressed correctly.
from engine import Job
LEVEL = 'other'
TRUSTED = []
ASSUMPTIONS = ['ncmpio_NC_check_vlen is abstracted by its contract (ghost boolean per variable) in the check of ncmpio_NC_check_vlens; its own functional clause is checked on instances (dimension lengths bounded or near the format thresholds)']
EXPLANATION = 'size-rule decision logic at enddef against the format rules for every kind/order of up to 4 variables; product leaf on bounded widths and threshold constants'
ED = ['src/drivers/ncmpio/ncmpio_enddef.c']

def subarray64_jobs(tier, prop):
    # file type of a subarray request with a dimension or start beyond 2^31-1 (CDF-5): (ndims, dimension lengths, element size, extra canary)
    P31 = 1 << 31
    inst = [(2, (3, P31 + 64, 1), 1, None), (2, (P31 + 5, 7, 1), 4, None), (1, ((1 << 32) + 10, 1, 1), 2, None), (3, (3, 4, P31 + 1), 1, None),
            (2, (100, 200, 1), 4, 'small'), (3, (P31 + 5, 2, 2), 8, 'overflow')]
    if tier != 'quick':
        inst += [(3, (3, P31 + 3, 5), 2, None), (2, ((1 << 40), (1 << 20), 1), 1, None)]
    js = []
    for nd, sz, el, extra in inst:
        can = ['small_path'] if extra == 'small' else (['large_path_with_offset_in_the_slowest_dimension'] if sz[0] > 1 else []) + \
              (['start_beyond_2e31'] if sz[nd - 1] > P31 else []) + (['eintoverflow'] if extra == 'overflow' else [])
        js.append(Job('%s/type_create_subarray64/ndims%d_%s_el%d' % (prop, nd, 'x'.join(str(x) for x in sz[:nd]), el), prop,
                      ['src/drivers/ncmpio/ncmpio_filetype.c', 'src/drivers/common/error_mpi2nc.c'], 'C18_subarray64.c', enforce='ncmpio_filetype.c:type_create_subarray64',
                      defines=['-DND=%d' % nd, '-DSZ0=%dLL' % sz[0], '-DSZ1=%dLL' % sz[1], '-DSZ2=%dLL' % sz[2], '-DEL=%d' % el] +
                              (['-DEXPECT_SMALL'] if extra == 'small' else []) + (['-DEXPECT_OVERFLOW'] if extra == 'overflow' else []),
                      canaries=can, unwind=5, kind='bounded', timeout=600,
                      bound='%d dimensions of lengths %s (enumerated), element size %d; starts and counts symbolic inside the shape' % (nd, list(sz[:nd]), el),
                      assumptions=['type_create_subarray64: MPI datatype constructors (hvector, hindexed, resized, subarray, get_extent, free) are a harness model with bodies that records the type map parameters']))
    return js

def jobs(tier, ws):
    js = []
    for nv in ([1, 2, 3] if tier == 'quick' else [1, 2, 3, 4, 5]):
        js.append(Job('C18/ncmpio_NC_check_vlens/nvars%d' % nv, 'C18', ED, 'C18_vlens.c', enforce='ncmpio_NC_check_vlens',
                      replace=['ncmpio_NC_check_vlen'], defines=['-DH_vlens', '-DLEAF_ABSTRACT', '-DNVARS=%d' % nv],
                      canaries=['noerr', 'evarsize'] + (['oversize_last_accepted'] if nv >= 2 else []), unwind=10, kind='bounded',
                      bound='%d variables of symbolic kind (fixed/record/scalar) and symbolic fit' % nv))
    lims = {1: 2147483644, 2: 4294967292, 5: 9223372036854775804}
    # leaf: symbolic dimension lengths below 2^W against each format limit scaled down is meaningless, so the leaf is
    # checked (a) with lengths < 2^10 against small limits and (b) at the real thresholds with one symbolic dimension
    for nd in (0, 1, 2, 3):
        for fmt, lim in lims.items():
            if nd == 3 and tier == 'quick':
                continue   # two symbolic 64-bit divisions: minutes per instance
            smax = (1 << 62) if nd <= 1 else (1 << 12)   # two symbolic 64-bit factors beyond 2^12 do not finish on any back end (2^33 tried: > 600 s)
            js.append(Job('C18/ncmpio_NC_check_vlen/ndims%d/fmt%d' % (nd, fmt), 'C18', ED, 'C18_vlens.c', enforce='ncmpio_NC_check_vlen',
                          defines=['-DH_vlen', '-DNDIMS=%d' % nd, '-DVLEN_MAX=%dLL' % lim, '-DSHAPE_MAX=%dLL' % smax, '-DNVARS=1'],
                          canaries=['fits'] + (['too_big'] if nd >= 1 and smax * (smax if nd > 1 else 1) * 8 > lim else []), unwind=5, kind='bounded', solver=(['--sat-solver', 'cadical'] if nd >= 2 else []),
                          bound='ndims=%d, dimension lengths <= %d, limit of CDF-%d' % (nd, smax, fmt), timeout=600))
    js += subarray64_jobs(tier, 'C18')
    import C03
    js += C03.begins_jobs(tier, 'C18', [(3, 512, 4)] if tier == 'quick' else [(3, 512, 4), (4, 512, 512)])
    return js
