# C11 I/O failures are never silently dropped.
from engine import Job
LEVEL = 'proof'
TRUSTED = ['stubs/mpi_model.c: MPI-IO data-transfer calls fail at most once, at an arbitrary call, with an arbitrary non-success code whose class is one of {IO, NO_SPACE, QUOTA, ACCESS, READ_ONLY, BAD_FILE, NO_SUCH_FILE, FILE_EXISTS, AMODE, NOT_SAME, OTHER}']
ASSUMPTIONS = ['statistics counters put_size/get_size start below 2^62', 'malloc never fails']
EXPLANATION = 'each function that issues MPI-IO data transfers is enforced against "injected failure on this rank => error return"'
MODEL = ['stubs/mpi_model.c']
COMMON = ['src/drivers/common/error_mpi2nc.c', 'src/drivers/common/ncx.m4']

def jobs(tier, ws, prop='C11'):
    js = []
    js.append(Job(prop + '/ncmpio_write_numrecs', prop, ['src/drivers/ncmpio/ncmpio_sync.c'] + COMMON, 'C11_write_numrecs.c',
                  enforce='ncmpio_write_numrecs', defines=['-DENFORCE_ncmpio_write_numrecs'], extra_src=MODEL,
                  canaries=['wrote_ok', 'failure_reported', 'eintoverflow', 'nothing_to_do'], unwind=26, kind='proof'))
    js.append(Job(prop + '/ncmpio_read_write', prop, ['src/drivers/ncmpio/ncmpio_file_io.c'] + COMMON, 'C11_read_write.c',
                  enforce='ncmpio_read_write', extra_src=MODEL, canaries=['transferred', 'failure_reported', 'packed_path'], unwind=40, kind='proof', timeout=600,
                  assumptions=['ncmpio_read_write instance: predefined element type, count <= 16, packing buffer < 1 KiB; MPI_Pack/MPI_Unpack bookkeeping only']))
    js.append(Job(prop + '/wait_getput', prop, ['src/drivers/ncmpio/ncmpio_wait.c'] + COMMON, 'C11_wait_getput.c', enforce='ncmpio_wait.c:wait_getput',
                  replace=['ncmpio_wait.c:calculate_access_range', 'qsort', 'ncmpio_wait.c:req_aggregation', 'ncmpio_write_numrecs'], extra_src=MODEL,
                  canaries=['grew', 'agg_error_returned', 'wrote'], unwind=40, kind='bounded', timeout=600, rfp=True,
                  bound='2 sub-requests with symbolic access ranges', assumptions=['wait_getput: calculate_access_range, qsort and req_aggregation by (assumed) contract']))
    if prop == 'C11':
        import C16, C19, C08
        js.append(C08.close_files_job('C11'))   # F24
        import C14
        js += [j for j in C14.driver_mode_jobs('C11') if 'redef' in j.name]   # F25 (open)
        js += [j for j in C16.jobs(tier, ws, prop='C11') if 'fillerup' in j.name][:2]   # F22: failed fill write at enddef reported
        js += [j for j in C19.var_jobs(tier, 'C11') if 'ndims2' in j.name][:1]   # F21: failed header read never becomes success
    import C02
    js += C02.commit_jobs(tier, prop, only=[(2, 1), (2, 3)] if tier == 'quick' else None) if prop == 'C11' else []   # F19: write-phase error kept
    return js
