# C15 Out-of-range requests are rejected and writes stay inside their target.
from engine import Job
LEVEL = 'other'
TRUSTED = ['MPI-IO writes only what the filetype names']
ASSUMPTIONS = ['order of NC_ESTRIDE against NC_EEDGE and of NC_ENEGATIVECNT against NC_EINVALCOORDS is not documented: either admitted']
EXPLANATION = 'argument-check functions of the dispatcher under contract against the 128-bit request rule; strided edge clause bounded by operand width'
VG = ['src/dispatchers/var_getput.m4']

def jobs(tier, ws):
    js = []
    js.append(Job('C15/check_EINVALCOORDS', 'C15', VG, 'C15_checks.c', enforce='var_getput.c:check_EINVALCOORDS',
                  defines=['-DH_EINVALCOORDS', '-DENFORCE_check_EINVALCOORDS'], canaries=['noerr', 'einvalcoords', 'relaxed_boundary'], unwind=2, kind='proof'))
    # overflow obligations on the full domain + functional clause
    js.append(Job('C15/check_EEDGE', 'C15', VG, 'C15_checks.c', enforce='var_getput.c:check_EEDGE',
                  defines=['-DH_EEDGE', '-DENFORCE_check_EEDGE'], canaries=['noerr_strided', 'eedge_strided', 'noerr_plain'], unwind=2, kind='proof',
                  timeout=600))
    # strided clause: 64-bit divide in the code against a 128-bit product in the spec is out of reach of
    # every back end with a symbolic stride (probed: 644 s at 8-bit operands).  The stride is therefore
    # enumerated as a compile-time constant; start, count and shape stay symbolic over all 64 bits.
    strides = [1, 2, 3, 1 << 16, 1 << 32, 1 << 62, (1 << 63) - 1]
    if tier != 'quick':
        strides += [4, 8, 1 << 20, 1 << 31, 1 << 40, 1 << 61]
    for st in strides:
        js.append(Job('C15/check_EEDGE/stride_%d' % st, 'C15', VG, 'C15_checks.c', enforce='var_getput.c:check_EEDGE',
                      defines=['-DH_EEDGE', '-DENFORCE_check_EEDGE', '-DCLAUSE_STRIDED', '-DSTRIDE_CONST=%dLL' % st],
                      canaries=['eedge_strided'] + (['noerr_strided'] if 1 < st < (1 << 62) else []), unwind=2, kind='bounded',
                      bound='stride = %d (enumerated constant); start, count, shape symbolic 64-bit' % st, timeout=600))
    for w in ([5] if tier == 'quick' else [5, 6, 7]):
        js.append(Job('C15/check_EEDGE/strided_w%d' % w, 'C15', VG, 'C15_checks.c', enforce='var_getput.c:check_EEDGE',
                      defines=['-DH_EEDGE', '-DENFORCE_check_EEDGE', '-DCLAUSE_STRIDED', '-DWIDTH_BOUND=%d' % w],
                      canaries=['noerr_strided', 'eedge_strided', 'noerr_plain'], unwind=2, kind='bounded',
                      bound='symbolic stride; count, stride < 2^%d, shape < 2^%d' % (w, 2 * w), timeout=900))
    return js
