# C15 Out-of-range requests are rejected and writes stay inside their target.
import os, re
from engine import Job, Infra, REPO
LEVEL = 'other'
TRUSTED = ['MPI-IO writes only what the filetype names']
ASSUMPTIONS = ['order of NC_ESTRIDE against NC_EEDGE and of NC_ENEGATIVECNT against NC_EINVALCOORDS is not documented: either admitted']
EXPLANATION = 'argument-check functions of the dispatcher under contract against the 128-bit request rule; strided edge clause bounded by operand width'
VG = ['src/dispatchers/var_getput.m4']

WAIT = 'src/drivers/ncmpio/ncmpio_wait.c'

def off_len_header(ws):
    # the segment type of ncmpio_wait.c is local to that file: extracted mechanically on every run
    def gen():
        txt = open(os.path.join(REPO, WAIT)).read()
        m = re.search(r'^typedef struct \{\n(?:[^}]*\n)+?\} off_len;[ \t]*$', txt, re.M)
        if not m:
            raise Infra('extraction anchor "typedef struct { ... } off_len;" not found in ncmpio_wait.c')
        d = os.path.join(ws.dir, 'offlen'); os.makedirs(d, exist_ok=True)
        open(os.path.join(d, 'off_len_extracted.h'), 'w').write('/* extracted from %s */\n%s\n' % (WAIT, m.group(0)))
        return d
    return ws.once(('offlen',), gen)

def merge_jobs(tier, ws, prop='C15'):
    d = off_len_header(ws) if ws is not None else '/nonexistent'
    return [Job('%s/merge_requests/requests%d' % (prop, nr), prop, [WAIT], 'C15_merge.c', enforce='ncmpio_wait.c:merge_requests',
                defines=['-DNR=%d' % nr, '-I' + d], tu_defines=['-include', '/verif/stubs/aint_int.h'], rfp=True, unwind=nr + 2, kind='bounded', timeout=900, solver=['--sat-solver', 'cadical'],
                canaries=['merged_into_one_segment', 'kept_apart', 'sorted_by_file_offset', 'overlap_split_because_buffers_not_adjacent', 'overlap_merged_because_buffers_line_up'],
                bound='%d pending requests, each on a 1-D fixed-size variable of 1-byte elements; begins < 2^40, starts and counts < 2^30, buffer positions symbolic' % nr,
                assumptions=['merge_requests: qsort, MPI_Get_address, are harness stubs with bodies; MPI_Aint_add/diff as integer arithmetic (stubs/aint_int.h); type off_len extracted from ncmpio_wait.c on every run'])
            for nr in [2]]   # 3 requests: the first solver pass alone takes > 11 min (run not completed in session 4): not registered

def jobs(tier, ws):
    js = []
    js.append(Job('C15/check_EINVALCOORDS', 'C15', VG, 'C15_checks.c', enforce='var_getput.c:check_EINVALCOORDS',
                  defines=['-DH_EINVALCOORDS', '-DENFORCE_check_EINVALCOORDS'], canaries=['noerr', 'einvalcoords', 'relaxed_boundary'], unwind=2, kind='proof'))
    # overflow obligations on the full domain + functional clause
    js.append(Job('C15/check_EEDGE', 'C15', VG, 'C15_checks.c', enforce='var_getput.c:check_EEDGE',
                  defines=['-DH_EEDGE', '-DENFORCE_check_EEDGE'], canaries=['noerr_strided', 'eedge_strided', 'noerr_plain'], unwind=2, kind='proof',
                  timeout=600))
    # strided clause: 64-bit divide in the code against a 128-bit product in the spec is out of reach of
    # every back end with a symbolic stride (probed: 644 s at 8-bit operands).  The stride is therefore
    # enumerated as a compile-time constant; start, count and shape stay symbolic over all 64 bits.
    strides = [1, 2, 3, 1 << 16, 1 << 32, 1 << 62, (1 << 63) - 1]
    if tier != 'quick':
        strides += [4, 8, 1 << 20, 1 << 31, 1 << 40, 1 << 61]
    for st in strides:
        js.append(Job('C15/check_EEDGE/stride_%d' % st, 'C15', VG, 'C15_checks.c', enforce='var_getput.c:check_EEDGE',
                      defines=['-DH_EEDGE', '-DENFORCE_check_EEDGE', '-DCLAUSE_STRIDED', '-DSTRIDE_CONST=%dLL' % st],
                      canaries=['eedge_strided'] + (['noerr_strided'] if 1 < st < (1 << 62) else []), unwind=2, kind='bounded',
                      bound='stride = %d (enumerated constant); start, count, shape symbolic 64-bit' % st, timeout=600))
    for w in ([5] if tier == 'quick' else [5, 6, 7]):
        js.append(Job('C15/check_EEDGE/strided_w%d' % w, 'C15', VG, 'C15_checks.c', enforce='var_getput.c:check_EEDGE',
                      defines=['-DH_EEDGE', '-DENFORCE_check_EEDGE', '-DCLAUSE_STRIDED', '-DWIDTH_BOUND=%d' % w],
                      canaries=['noerr_strided', 'eedge_strided', 'noerr_plain'], unwind=2, kind='bounded',
                      bound='symbolic stride; count, stride < 2^%d, shape < 2^%d' % (w, 2 * w), timeout=900))
    # the caller of the two leaf checks: per-dimension loop, NULL arguments, record dimension, precedence
    for nd in ([1, 2] if tier == 'quick' else [1, 2, 3]):   # 3 dimensions: thorough only
        js.append(Job('C15/check_start_count_stride/ndims%d' % nd, 'C15', VG, 'C15_scs.c', enforce='var_getput.c:check_start_count_stride',
                      replace=['var_getput.c:check_EINVALCOORDS', 'var_getput.c:check_EEDGE'], defines=['-DND=%d' % nd], rfp=True,
                      canaries=['accepted_strided', 'write_beyond_the_last_record_accepted', 'einvalcoords', 'eedge', 'enegativecnt', 'estride',
                                'null_count_vara', 'null_count_var1', 'driver_error'],
                      unwind=nd + 2, kind='bounded', bound='number of dimensions = %d (enumerated); start, count, stride, shape, record count, flags, API kind symbolic' % nd,
                      timeout=300, solver=['--sat-solver', 'cadical'],
                      assumptions=['check_EINVALCOORDS / check_EEDGE by their contracts (enforced by the other C15 jobs; strided clause of check_EEDGE verified for enumerated strides and width-bounded symbolic strides only)',
                                   'driver inq_dim: stub handing back a non-negative record count or an error code']))
    js += merge_jobs(tier, ws)
    # the record-variable count that is_request_contiguous relies on to keep a multi-record request inside its own
    # variable is recomputed by every enddef (seed C15_m3: stale count after redef writes through a neighbour's records)
    import C03
    js += [j for j in C03.jobs(tier, ws, prop='C15') if 'ncmpio__enddef' in j.name]
    return js
