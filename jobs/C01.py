# C01 Blocking put/get round-trip fidelity (library-side chain: offsets, views, pack/swap).
from engine import Job
LEVEL = 'other'
TRUSTED = ['MPI-IO: File_set_view + File_write_at[_all] with a derived filetype transfers exactly the bytes the type map names']
ASSUMPTIONS = ['dimension lengths bounded per instance (nonlinear arithmetic): see bounded[]']
EXPLANATION = 'offset computation of requests against the mathematical element offset (128-bit), ndims and rec/fixed kind enumerated, lengths bounded'
UT = ['src/drivers/ncmpio/ncmpio_util.c']

def offset_jobs(tier, prop):
    js = []
    # (ndims, isrec, bound on outer dimension lengths, bound on innermost length, element size)
    shapes = [(0, 0, 1, 1, 4), (1, 0, 1, 1 << 40, 8), (1, 1, 1, 1, 4), (2, 0, 4, 1 << 33, 4), (2, 1, 1, 1 << 34, 4), (2, 1, 1, 1 << 34, 8),
              (3, 1, 4, 1 << 32, 4), (3, 0, 4, 1 << 30, 4), (2, 0, 8, 8, 2)]
    if tier != 'quick':
        shapes += [(3, 0, 8, 8, 1), (2, 0, 1 << 8, 1 << 8, 4), (3, 1, 4, 1 << 32, 1), (3, 0, 4, 1 << 30, 8)]
    for nd, isrec, omax, imax, xsz in shapes:
        js.append(Job('%s/ncmpio_first_offset/ndims%d_%s_outer%d_inner%d_xsz%d' % (prop, nd, 'rec' if isrec else 'fix', omax, imax, xsz), prop, UT, 'C01_offsets.c',
                      enforce='ncmpio_first_offset', defines=['-DNDIMS=%d' % nd, '-DISREC=%d' % isrec, '-DOUTER_MAX=%dLL' % omax, '-DINNER_MAX=%dLL' % imax, '-DXSZ=%d' % xsz],
                      canaries=['noerr'], unwind=6, kind='bounded', timeout=900,
                      bound='ndims=%d %s, xsz=%d, outer dimension lengths <= %d, innermost <= %d, record index <= 3, begin/recsize < 2^40' % (nd, 'record' if isrec else 'fixed', xsz, omax, imax)))
    return js

def contig_jobs(tier, prop):
    js = []
    for nd in (1, 2, 3):
        js.append(Job('%s/is_request_contiguous/ndims%d' % (prop, nd), prop, ['src/drivers/ncmpio/ncmpio_filetype.c'], 'C01_contig.c', enforce='ncmpio_filetype.c:is_request_contiguous',
                      defines=['-DNDIMS=%d' % nd, '-DSMAX=%d' % (6 if tier == 'quick' else 12)], canaries=['noncontiguous'] + (['several_rows_contiguous', 'several_records_of_the_only_record_variable'] if nd > 1 else []),
                      unwind=6, kind='bounded', timeout=600, solver=['--sat-solver', 'cadical'],
                      bound='%d dimensions of length 1..%d, counts 0..length, kind (fixed / only record variable / one of several record variables) symbolic' % (nd, 6 if tier == 'quick' else 12)))
    return js

def dtype_jobs(tier, prop):
    return [Job('%s/ncmpii_dtype_decode/subarray_ndim%d' % (prop, nd), prop, ['src/drivers/common/dtype_decode.c', 'src/drivers/common/error_mpi2nc.c'], 'C01_dtype.c', enforce='ncmpii_dtype_decode', enforce_rec=True,
                defines=['-DNDIM=%d' % nd], tu_defines=['-include', '/verif/stubs/noprintf.h'], canaries=['noncontiguous', 'several_elements'], unwind=12, kind='bounded', timeout=900, solver=['--sat-solver', 'cadical'],
                bound='MPI_Type_create_subarray over MPI_INT with %d dimensions, sizes 1..1000, subsizes and starts symbolic, C or Fortran order' % nd,
                assumptions=['ncmpii_dtype_decode: MPI_Type_get_envelope / get_contents / size / free are harness stubs describing one subarray type over MPI_INT; the recursive call on the element type is assumed to satisfy the contract being enforced (--enforce-contract-rec)'])
            for nd in ((2,) if tier == 'quick' else (1, 2, 3))]

def jobs(tier, ws):
    return offset_jobs(tier, 'C01') + contig_jobs(tier, 'C01') + dtype_jobs(tier, 'C01')
