# C14 API mode state machine and error precedence.
from engine import Job
LEVEL = 'proof'
TRUSTED = []
ASSUMPTIONS = ['where the documents leave an order open the spec admits it; the order checked here (EPERM, EINDEFINE, EINDEP/ENOTINDEP, EGLOBAL/ENOTVAR, ECHAR) is the documented one']
EXPLANATION = 'mode checks of the dispatcher under contract against the reference automaton / precedence table'
VG = ['src/dispatchers/var_getput.m4']

def jobs(tier, ws):
    js = []
    js.append(Job('C14/sanity_check', 'C14', VG, 'C14_sanity.c', enforce='var_getput.c:sanity_check',
                  canaries=['noerr', 'eperm', 'eindefine', 'eindep', 'enotindep', 'eglobal', 'enotvar', 'echar'], unwind=4, kind='proof'))
    INC = {'TU_file_c': 'src/dispatchers/file.c'}
    for api, extra in [('ncmpi_enddef', ''), ('ncmpi__enddef', ', 0, 0, 0, 0'), ('ncmpi_redef', ''), ('ncmpi_begin_indep_data', ''), ('ncmpi_end_indep_data', '')]:
        js.append(Job('C14/' + api, 'C14', [], 'C14_modes.c', enforce=api, replace=['PNC_check_id', 'drv_simple', 'drv__enddef'],
                      defines=['-DAPI=' + api, '-DAPI_EXTRA=' + extra], include_tus=INC, extra_src=['stubs/mpi_model.c'], rfp=True,
                      canaries=['noerr', 'ebadid', 'rejected_or_driver_error'], unwind=4, kind='proof', timeout=600,
                      assumptions=['driver entries are arbitrary (contract: any return code); safe-mode (NC_MODE_SAFE) path not covered in this instance']))
    return js
