# C14 API mode state machine and error precedence.
from engine import Job
LEVEL = 'proof'
TRUSTED = []
ASSUMPTIONS = ['where the documents leave an order open the spec admits it; the order checked here (EPERM, EINDEFINE, EINDEP/ENOTINDEP, EGLOBAL/ENOTVAR, ECHAR) is the documented one']
EXPLANATION = 'mode checks of the dispatcher under contract against the reference automaton / precedence table'
VG = ['src/dispatchers/var_getput.m4']

def driver_mode_jobs(prop):
    FMISC = ['src/drivers/ncmpio/ncmpio_file_misc.c', 'src/drivers/common/error_mpi2nc.c']
    common = dict(replace=['ncmpio_end_indep_data', 'ncmpio_file_misc.c:dup_NC', 'ncmpio_free_NC', 'ncmpio_close_files'], unwind=8, kind='proof', timeout=300,
                  assumptions=['ncmpio_redef / ncmpio_abort: ncmpio_end_indep_data, dup_NC, ncmpio_free_NC, ncmpio_close_files by (assumed) contracts with a ghost call log'])
    return [Job('%s/ncmpio_redef' % prop, prop, FMISC, 'C14_driver_modes.c', enforce='ncmpio_redef', defines=['-DH_redef'], canaries=['left_independent_mode', 'from_collective_mode', 'no_copy_no_define_mode'], **common),
            Job('%s/ncmpio_abort' % prop, prop, FMISC, 'C14_driver_modes.c', enforce='ncmpio_abort', canaries=['new_file_removed', 'redefinition_discarded', 'four_steps'], **common)]

def jobs(tier, ws):
    js = []
    js.append(Job('C14/sanity_check', 'C14', VG, 'C14_sanity.c', enforce='var_getput.c:sanity_check',
                  canaries=['noerr', 'eperm', 'eindefine', 'eindep', 'enotindep', 'eglobal', 'enotvar', 'echar'], unwind=4, kind='proof'))
    INC = {'TU_file_c': 'src/dispatchers/file.c'}
    for api, extra in [('ncmpi_enddef', ''), ('ncmpi__enddef', ', 0, 0, 0, 0'), ('ncmpi_redef', ''), ('ncmpi_begin_indep_data', ''), ('ncmpi_end_indep_data', '')]:
        js.append(Job('C14/' + api, 'C14', [], 'C14_modes.c', enforce=api, replace=['PNC_check_id', 'drv_simple', 'drv__enddef'],
                      defines=['-DAPI=' + api, '-DAPI_EXTRA=' + extra], include_tus=INC, extra_src=['stubs/mpi_model.c'], rfp=True,
                      canaries=['noerr', 'ebadid', 'rejected_or_driver_error'], unwind=4, kind='proof', timeout=600,
                      assumptions=['driver entries are arbitrary (contract: any return code); safe-mode (NC_MODE_SAFE) path not covered in this instance']))
    js += driver_mode_jobs('C14')
    return js
