# C17 File handles and library resources have a clean lifecycle.
from engine import Job
LEVEL = 'proof'
TRUSTED = ['CBMC malloc/free model (malloc never fails: OOM paths are outside the property)']
ASSUMPTIONS = ['representation invariant of the id table is used in slot form (occupied slot => numfiles>0; numfiles<MAX => a free slot exists): it is established by the zero-initialised statics and preserved by new_id_PNCList/del_from_PNCList (proved here)']
EXPLANATION = 'id-table functions of dispatchers/file.c under contract with the real 1024-slot table (ghost slot instead of forall)'
FILE_C = []
INC = {'TU_file_c': 'src/dispatchers/file.c'}

def vara_jobs(tier, prop):
    return [Job('%s/filetype_create_vara/record_ndims%d_recsize%d' % (prop, nd, rs), prop, ['src/drivers/ncmpio/ncmpio_filetype.c', 'src/drivers/common/error_mpi2nc.c'], 'C17_filetype_vara.c',
                enforce='ncmpio_filetype.c:filetype_create_vara', replace=['ncmpio_filetype.c:is_request_contiguous', 'ncmpio_filetype.c:type_create_subarray64'],
                defines=['-DNDIMS=%d' % nd, '-DRECSIZE=%dLL' % rs], canaries=['record_type_built', 'more_records_than_an_int_counts', 'per_record_type_failed', 'contiguous'], unwind=5, kind='bounded', timeout=240,
                bound='record variable with %d dimensions, record size %d (enumerated); start, count, begin, callee outcomes symbolic' % (nd, rs),
                assumptions=['filetype_create_vara: is_request_contiguous and type_create_subarray64 by their contracts (enforced in C01 / C18); ncmpio_first_offset, ncmpii_nc2mpitype and the MPI datatype calls are harness stubs with bodies'])
            for nd, rs in ([(2, 12)] if tier == 'quick' else [(2, 12), (3, 12), (2, (1 << 33) + 4)])]

def jobs(tier, ws):
    js = []
    js.append(Job('C17/PNC_check_id', 'C17', FILE_C, 'C17_idtable.c', enforce='PNC_check_id',
                  defines=['-DH_check_id', '-DENFORCE_PNC_check_id'], canaries=['noerr', 'ebadid', 'stale_in_range'], unwind=3, kind='proof', include_tus=INC, solver=['--arrays-uf-always']))
    js.append(Job('C17/new_id_PNCList', 'C17', FILE_C, 'C17_idtable.c', enforce='file.c::new_id_PNCList',
                  defines=['-DH_new_id'], canaries=['noerr', 'enfile'], unwind=3, kind='proof',
                  bound=None, timeout=900, mem_gb=12, include_tus=INC, solver=['--arrays-uf-always'],
                  loops=[{'function': 'file.c::new_id_PNCList', 'anchor': r'^\s*for \(',
                          'invariants': '0 <= i && i <= 1024 && (pnc_numfiles < 1024 ==> i <= W) && (G < i ==> old_G != (void*)0)',
                          'assigns': 'i', 'decreases': '1024 - i',
                          'symbol_map': 'i,new_id_PNCList::1::i'}]))
    js.append(Job('C17/del_from_PNCList', 'C17', FILE_C, 'C17_idtable.c', enforce='file.c::del_from_PNCList',
                  defines=['-DH_del_id'], canaries=['ok'], unwind=3, kind='proof', include_tus=INC, solver=['--arrays-uf-always']))
    js.append(Job('C17/ncmpi_create', 'C17', FILE_C, 'C17_create.c', enforce='ncmpi_create', replace=['file.c::new_id_PNCList', 'file.c::del_from_PNCList', 'file.c::combine_env_hints'], rfp=True,
                  canaries=['created_on_user_communicator', 'too_many_files', 'dup_failed', 'bad_mode'], unwind=8, kind='bounded', timeout=600, include_tus=INC, solver=['--sat-solver', 'cadical'],
                  bound='no PNETCDF_* environment variable; create mode, process count (1..4), communicator kind, failure of MPI_Comm_dup / of the id table / of the driver symbolic; path of one character',
                  assumptions=['ncmpi_create: NCI_Malloc / NCI_Free substituted by counting wrappers in this TU; MPI calls, getenv, ncmpio_inq_driver and the driver entries are harness stubs; new_id_PNCList / del_from_PNCList / combine_env_hints by summary contracts']))
    import C03
    js.append(C03.create_job('C17'))   # F26: a create that fails after MPI_File_open keeps no file handle
    import C18
    js += vara_jobs(tier, 'C17')
    js += [j for j in C18.subarray64_jobs(tier, 'C17') if 'ndims3' in j.name]   # F27: datatype balance of the large-dimension file type, failing path included
    return js
