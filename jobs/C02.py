# C02 Nonblocking request aggregation is equivalent to blocking execution (queue operations).
from engine import Job
LEVEL = 'other'
TRUSTED = ['MPI-IO executing the merged view equals executing the views one after another']
ASSUMPTIONS = ['queue shapes enumerated (number of lead requests, sub-requests per lead, number of ids); ids, flags, buffers, payload symbolic']
EXPLANATION = 'queue operations of ncmpio_wait.c enforced against a view-level specification (which requests remain, unchanged and with consistent cross indices) on enumerated shapes'
WT = ['src/drivers/ncmpio/ncmpio_wait.c']
MODEL = ['stubs/mpi_model.c']

def cancel_jobs(tier, prop):
    js = []
    shapes = [(2, 1, (1, 1, 1)), (3, 1, (1, 2, 1))]   # two ids named at once: solver does not finish in 20 min (probed) - not claimed
    if tier != 'quick':
        shapes += [(3, 1, (2, 2, 2)), (1, 1, (1, 1, 1)), (3, 1, (2, 1, 2))]
    for kind in (0, 1):
        for nl, nr, nn in shapes:
            js.append(Job('%s/ncmpio_cancel/%s/leads%d_subs%s_ids%d' % (prop, 'get' if kind else 'put', nl, ''.join(map(str, nn[:nl])), nr), prop, WT, 'C02_cancel.c',
                          enforce='ncmpio_cancel', replace=['ncmpii_in_swapn'], extra_src=MODEL,
                          defines=['-DNL=%d' % nl, '-DNR=%d' % nr, '-DNN0=%d' % nn[0], '-DNN1=%d' % nn[1], '-DNN2=%d' % nn[2], '-DKIND=%d' % kind],
                          canaries=['one_cancelled', 'unknown_id'] + (['two_cancelled'] if nr > 1 and nl > 1 else []), unwind=26, kind='bounded', object_bits=10, timeout=1200, mem_gb=14,
                          bound='%d lead %s requests with %s sub-requests, %d ids named' % (nl, 'get' if kind else 'put', nn[:nl], nr)))
        for nl, nn, which in [(2, (1, 2, 1), 'NC_REQ_ALL'), (3, (1, 2, 1), 'NC_GET_REQ_ALL' if kind else 'NC_PUT_REQ_ALL')]:
            js.append(Job('%s/ncmpio_cancel/%s/%s/leads%d_subs%s' % (prop, 'get' if kind else 'put', which, nl, ''.join(map(str, nn[:nl]))), prop, WT, 'C02_cancel.c',
                          enforce='ncmpio_cancel', replace=['ncmpii_in_swapn'], extra_src=MODEL,
                          defines=['-DNL=%d' % nl, '-DNR=1', '-DNN0=%d' % nn[0], '-DNN1=%d' % nn[1], '-DNN2=%d' % nn[2], '-DKIND=%d' % kind, '-DCANCEL_ALL=%s' % which],
                          canaries=['all_cancelled'], unwind=26, kind='bounded', object_bits=10, timeout=600, mem_gb=12,
                          bound='cancel of ALL %s requests: %d lead requests with %s sub-requests' % ('get' if kind else 'put', nl, nn[:nl])))
    return js

def commit_jobs(tier, prop, only=None):
    js = []
    shapes = [(2, (1, 1, 1), m) for m in range(4)] + [(3, (1, 2, 1), 2), (3, (1, 2, 1), 5)]
    if tier != 'quick':
        shapes += [(3, (1, 2, 1), m) for m in (0, 1, 3, 4, 6, 7)] + [(1, (1, 1, 1), m) for m in (0, 1)] + [(3, (2, 1, 2), m) for m in (1, 2, 6)]
    for nl, nn, mask in shapes:
        if only is not None and (nl, mask) not in only:
            continue
        js.append(Job('%s/req_commit/put/leads%d_subs%s_completes%s' % (prop, nl, ''.join(map(str, nn[:nl])), format(mask, '0%db' % nl)[::-1]), prop, WT + ['src/drivers/common/error_mpi2nc.c'], 'C02_req_commit.c',
                      enforce='ncmpio_wait.c:req_commit', replace=['ncmpio_wait.c:extract_reqs', 'ncmpio_wait.c:wait_getput', 'ncmpii_in_swapn'], extra_src=MODEL,
                      defines=['-DNL=%d' % nl, '-DNN0=%d' % nn[0], '-DNN1=%d' % nn[1], '-DNN2=%d' % nn[2], '-DSELMASK=%d' % mask],
                      canaries=(['write_error'] if mask else ['nothing_to_do']) + (['all_completed'] if mask == (1 << nl) - 1 else []) + (['one_completed'] if bin(mask).count('1') == 1 and nl > 1 else []),
                      unwind=26, kind='bounded', timeout=420, mem_gb=12, solver=['--sat-solver', 'cadical'],
                      unwindset=['ncmpio_wait.c:req_commit.%d:%d' % (i, nl + 2) for i in range(6)],
                      bound='%d pending lead put requests with %s sub-requests; completed subset %s (enumerated); flags, record numbers, buffers symbolic' % (nl, nn[:nl], format(mask, '0%db' % nl)[::-1]),
                      assumptions=['req_commit: extract_reqs by (assumed) contract - selection exactness of extract_reqs itself is not yet enforced (see F7)']))
    return js

def post_jobs(tier, prop):
    js = []
    for nlp, newn, pos in ([(1, 2, 0), (1, 2, 1), (2, 1, 2), (1, 1, 0), (2, 1, 0), (0, 1, 0)] if tier == 'quick' else [(a, b, c) for a in (0, 1, 2, 3) for b in (1, 2) for c in range(a + 1) if not (a == 0 and b == 2) and a + b <= 4]):   # beyond one allocation granule of the verification-only queue size the harness does not follow the reallocation
        js.append(Job('%s/ncmpio_igetput_varm/iput/pending%d_records%d_at%d' % (prop, nlp, newn, pos), prop,
                      ['src/drivers/common/utils.c', 'src/drivers/common/convert_swap.m4', 'src/drivers/common/create_imaptype.c', 'src/drivers/common/error_mpi2nc.c', 'src/drivers/common/ncx.m4'],
                      'C02_igetput.c', enforce='ncmpio_igetput_varm', replace=['ncmpio_pack_xbuf'] + (['ncmpio_add_record_requests'] if newn > 1 else []), include_tus={'TU_i_getput_c': 'src/drivers/ncmpio/ncmpio_i_getput.m4'},
                      extra_src=MODEL, defines=['-DNLP=%d' % nlp, '-DNEWN=%d' % newn, '-DNEWPOS=%d' % pos], canaries=['record_request'] + (['appended_last'] if pos == nlp else []) + (['inserted_first'] if pos == 0 and nlp else []),
                      unwind=26, kind='bounded', timeout=600, mem_gb=12, solver=['--sat-solver', 'cadical'],
                      bound='insertion position %d; ' % pos + '%d pending lead puts; new high-level iput on a 1-D int variable with %d record(s); allocation granule NC_REQUEST_CHUNK = 4 (verification-only; library value 1024)' % (nlp, newn)))
    for n, ws_ in ([(2, 0), (3, 1)] if tier == 'quick' else [(a, b) for a in (2, 3, 4, 5) for b in (0, 1)]):
        js.append(Job('%s/ncmpio_add_record_requests/records%d_%s' % (prop, n, 'strided' if ws_ else 'contiguous'), prop,
                      ['src/drivers/common/utils.c', 'src/drivers/common/convert_swap.m4', 'src/drivers/common/create_imaptype.c', 'src/drivers/common/error_mpi2nc.c', 'src/drivers/common/ncx.m4'],
                      'C02_igetput.c', enforce='ncmpio_add_record_requests', include_tus={'TU_i_getput_c': 'src/drivers/ncmpio/ncmpio_i_getput.m4'}, extra_src=MODEL,
                      defines=['-DH_addrec', '-DNEWN=%d' % n, '-DNLP=0', '-DWITH_STRIDE=%d' % ws_], canaries=(['strided_records', 'unit_stride'] if ws_ else ['contiguous_records']), unwind=26, kind='bounded', timeout=600, solver=['--sat-solver', 'cadical'],
                      bound='%d records of a 2-D record variable (3 elements per record); first record and record stride symbolic' % n))
    return js

# post_jobs (ncmpio_igetput_varm): MiniSat ends with ERROR/out-of-memory; CaDiCaL decides one-record instances in 15 s; multi-record instances need
# ncmpio_add_record_requests replaced by its contract (enforced separately)
def extract_jobs(tier, prop):
    js = []
    for nl, nr in ([(2, 2), (2, 1), (3, 2)] if tier == 'quick' else [(1, 1), (2, 1), (2, 2), (2, 3), (3, 2), (3, 3)]):
        js.append(Job('%s/extract_reqs/put/pending%d_ids%d' % (prop, nl, nr), prop, WT + ['src/drivers/common/error_mpi2nc.c'], 'C02_extract.c', enforce='ncmpio_wait.c:extract_reqs', extra_src=MODEL,
                      defines=['-DNL=%d' % nl, '-DNR=%d' % nr], canaries=['unknown_id', 'only_null_ids'] + (['all_named'] if nr >= nl else []) + (['proper_subset'] if nl > 1 else []) + (['named_in_reverse_order'] if nr >= nl and nl > 1 else []),
                      unwind=26, kind='bounded', timeout=600, solver=['--sat-solver', 'cadical'], unwindset=['ncmpio_wait.c:extract_reqs.%d:%d' % (i, max(nl, nr) + 2) for i in range(24)],
                      bound='%d pending lead puts (one sub-request each, no pending get), %d ids per wait, each symbolic (a pending id, NC_REQ_NULL or an id that names nothing); request flags symbolic' % (nl, nr)))
    return js

def jobs(tier, ws):
    # req_commit (commit_jobs): MiniSat needs > 7 min per obligation even on a 2-request queue; CaDiCaL (--sat-solver cadical) 1-2.5 min per instance
    import os
    return cancel_jobs(tier, 'C02') + commit_jobs(tier, 'C02') + post_jobs(tier, 'C02') + extract_jobs(tier, 'C02')
