# C03 Files written conform to the classic CDF-1/2/5 format specification (header encoder, layout).
from engine import Job
LEVEL = 'other'
TRUSTED = ['the file system; MPI-IO']
ASSUMPTIONS = ['variable entry instances: ndims in {0,1,2}, name of <= 4 characters, absent attribute list (name and attribute encoders replaced by contracts that advance the position)']
EXPLANATION = 'header element encoders / length functions enforced against the CDF grammar; layout computation against alignment and ordering rules'
HP = ['src/drivers/ncmpio/ncmpio_header_put.c', 'src/drivers/common/ncx.m4']
HG = ['src/drivers/ncmpio/ncmpio_header_get.c', 'src/drivers/common/ncx.m4']

def create_job(prop):
    return Job('%s/ncmpio_create/clobber_phase' % prop, prop, ['src/drivers/ncmpio/ncmpio_create.c', 'src/drivers/common/error_mpi2nc.c'], 'C03_create.c', enforce='ncmpio_create',
                      canaries=['prefixed_name_unlinked', 'truncated', 'exists_refused', 'removal_failed', 'fresh_create', 'created_then_failed'], unwind=8, kind='bounded', timeout=300, solver=['--sat-solver', 'cadical'],
                      bound='root process of 1 or 2; path with or without a file-system prefix; existence, file kind, create mode and errno of the removal symbolic; MPI_File_open fails (the function ends after the clobber phase)',
                      assumptions=['ncmpio_create: lstat / unlink / truncate, ncmpii_remove_file_system_type_prefix, MPI_Comm_rank/size, MPI_Bcast (root) and MPI_File_open are harness stubs that record their arguments; only the clobber phase and the failure right after the create are covered'])

def begins_jobs(tier, prop, insts=None):
    js = []
    for nv, ha, ra in (insts or ([(3, 512, 4), (2, 4, 512), (3, 1, 1)] if tier == 'quick' else [(3, 512, 4), (2, 4, 512), (3, 1, 1), (3, 4096, 1024), (4, 512, 512), (1, 512, 4)])):
        js.append(Job('%s/NC_begins/nvars%d_halign%d_ralign%d' % (prop, nv, ha, ra), prop, ['src/drivers/ncmpio/ncmpio_enddef.c', 'src/drivers/common/error_mpi2nc.c'], 'C03_begins.c',
                      enforce='ncmpio_enddef.c:NC_begins', replace=['ncmpio_hdr_len_NC'], defines=['-DNVARS=%d' % nv, '-DH_ALIGN=%d' % ha, '-DR_ALIGN=%d' % ra], extra_src=['stubs/mpi_model.c'],
                      canaries=(['evarsize', 'record_defined_before_fixed', 'single_record_var'] if nv > 1 else []), unwind=26, kind='bounded', timeout=600,
                      bound='new file, %d variables of symbolic kind and length (< 2^32, multiple of 4), header alignment %d, record alignment %d' % (nv, ha, ra)))
    return js

def jobs(tier, ws, prop='C03'):
    js = []
    for ver in (1, 2, 5):
        for nd in ((0, 2) if tier == 'quick' else (0, 1, 2)):
            js.append(Job('%s/hdr_put_NC_var/v%d_ndims%d' % (prop, ver, nd), prop, HP, 'C03_hdr_var.c', enforce='ncmpio_header_put.c:hdr_put_NC_var',
                          replace=['ncmpio_header_put.c:hdr_put_NC_name', 'ncmpio_header_put.c:hdr_put_NC_attrarray'],
                          defines=['-DH_put', '-DFMTVER=%d' % ver, '-DNDIMS=%d' % nd], canaries=['noerr', 'oversize_encoded'] + (['eintoverflow'] if ver == 1 else []),
                          unwind=6, kind='bounded', bound='format %d, ndims=%d, fixed name/attribute lengths; len, begin, xtype, dimids symbolic' % (ver, nd)))
    js.append(Job('%s/hdr_len_NC_var' % prop, prop, HG, 'C03_hdr_var.c', enforce='ncmpio_header_get.c:hdr_len_NC_var',
                  replace=['ncmpio_header_get.c:hdr_len_NC_attrarray'], defines=['-DH_len'], canaries=['positive'], unwind=4, kind='proof'))
    js += begins_jobs(tier, prop)
    if prop == 'C03':
        js.append(create_job('C03'))
    ED = ['src/drivers/ncmpio/ncmpio_enddef.c', 'src/drivers/common/error_mpi2nc.c']
    js.append(Job('%s/ncmpio__enddef' % prop, prop, ED, 'C03_enddef.c', enforce='ncmpio__enddef',
                  replace=['ncmpio_NC_check_vlens', 'ncmpio_enddef.c:NC_begins', 'ncmpio_NC_check_voffs', 'ncmpio_enddef.c:move_record_vars',
                           'ncmpio_enddef.c:move_fixed_vars', 'ncmpio_enddef.c:write_NC', 'ncmpio_fill_vars', 'ncmpio_free_NC'],
                  extra_src=['stubs/mpi_model.c', 'stubs/libc_model.c'], tu_defines=['-include', '/verif/stubs/libc_decl.h'], canaries=['completed', 'moved_both', 'moved_records_only', 'error'], unwind=40, kind='proof', timeout=900,
                  assumptions=['ncmpio__enddef: callee contracts (NC_begins, move_*, write_NC, fill, check_*) are abstract and assumed; instance: 2 variables of symbolic kind, safe mode off']))
    return js
