# C19 Memory safety on every program; malformed files fail cleanly.
from engine import Job
import C04
LEVEL = 'other'
TRUSTED = ['CBMC has no alignment check: misaligned typed access is not decided here']
ASSUMPTIONS = ['the automatic safety obligations (pointer, bounds, overflow, free preconditions, DFCC frame) of every function under contract in the other properties are C19 obligations as well; this check re-runs the header parser ones (arbitrary file bytes) and the variable-entry parser under an arbitrary value stream']
EXPLANATION = 'header parser under arbitrary bytes: no safety violation, limits checked before allocation/use, error or well-formed result, nothing leaked'
HG = ['src/drivers/ncmpio/ncmpio_header_get.c']

def jobs(tier, ws):
    js = []
    # hdr_get_NC_var harness (C19_hdr_var.c): the solver does not finish (> 5 min per obligation, probed on 3 back ends); parked, not registered
    import os
    for ver in ((1, 5) if os.environ.get('VERIF_PARKED') else ()):
        for nd in ((0, 2) if tier == 'quick' else (0, 1, 2, 3)):
            js.append(Job('C19/hdr_get_NC_var/v%d_ndims%d' % (ver, nd), 'C19', HG, 'C19_hdr_var.c', enforce='ncmpio_header_get.c:hdr_get_NC_var',
                          replace=['ncmpio_header_get.c:hdr_get_uint32', 'ncmpio_header_get.c:hdr_get_uint64', 'ncmpio_header_get.c:hdr_get_nc_type', 'ncmpio_header_get.c:hdr_get_NC_name',
                                   'ncmpio_header_get.c:hdr_get_NC_attrarray', 'ncmpio_new_NC_var', 'ncmpio_free_NC_var', 'ncmpii_xlen_nc_type'],
                          defines=['-DFMTVER=%d' % ver, '-DNDIMS_C=%d' % nd], canaries=['accepted', 'emaxdims'] + (['ebaddim'] if nd else []), unwind=10, kind='bounded', solver=['--sat-solver', 'cadical'],
                          bound='format %d, variable with %d dimensions; all header values symbolic' % (ver, nd), timeout=300))
    # the C04 parser jobs run with arbitrary file content and length: their safety obligations are C19's
    sel = [j for j in C04.jobs(tier, ws, prop='C19') if ('inj0' in j.name or 'hdr_get_uint64' in j.name or '/n8' in j.name or 'oversize' in j.name)]
    return js + (sel[:12] if tier == 'quick' else sel)
