# C19 Memory safety on every program; malformed files fail cleanly.
from engine import Job
import C04
LEVEL = 'other'
TRUSTED = ['CBMC has no alignment check: misaligned typed access is not decided here']
ASSUMPTIONS = ['the automatic safety obligations (pointer, bounds, overflow, free preconditions, DFCC frame) of every function under contract in the other properties are C19 obligations as well; this check re-runs the header parser ones (arbitrary file bytes) and the variable-entry parser under an arbitrary value stream']
EXPLANATION = 'header parser under arbitrary bytes: no safety violation, limits checked before allocation/use, error or well-formed result, nothing leaked'
HG = ['src/drivers/ncmpio/ncmpio_header_get.c']

def var_jobs(tier, prop):
    # hdr_get_NC_var (C19_hdr_var.c): MiniSat does not finish; CaDiCaL 20 s per instance
    js = []
    for ver in (1, 5):
        for nd in ((0, 2) if tier == 'quick' else (0, 1, 2, 3)):
            js.append(Job('%s/hdr_get_NC_var/v%d_ndims%d' % (prop, ver, nd), prop, HG, 'C19_hdr_var.c', enforce='ncmpio_header_get.c:hdr_get_NC_var',
                          replace=['ncmpio_header_get.c:hdr_get_uint32', 'ncmpio_header_get.c:hdr_get_uint64', 'ncmpio_header_get.c:hdr_get_nc_type', 'ncmpio_header_get.c:hdr_get_NC_name',
                                   'ncmpio_header_get.c:hdr_get_NC_attrarray', 'ncmpii_xlen_nc_type'],
                          defines=['-DFMTVER=%d' % ver, '-DNDIMS_C=%d' % nd], canaries=['accepted', 'emaxdims'] + (['ebaddim'] if nd else []), unwind=10, kind='bounded', solver=['--sat-solver', 'cadical'],
                          unwindset=['ncmpio_header_get.c:hdr_get_NC_var.0:%d' % (nd + 1)],
                          bound='format %d, variable with %d dimensions; all header values symbolic' % (ver, nd), timeout=300,
                          assumptions=['hdr_get_NC_var: ncmpio_new_NC_var / ncmpio_free_NC_var are harness stubs with bodies (one static object, dimids array of the announced length); allocation failure not modelled']))
    return js

def jobs(tier, ws):
    js = []
    js += var_jobs(tier, 'C19')
    import C07
    js.append(C07.copy_att_job('C19'))   # copy into an existing attribute stays inside its value buffer
    # the C04 parser jobs run with arbitrary file content and length: their safety obligations are C19's
    sel = [j for j in C04.jobs(tier, ws, prop='C19') if ('inj0' in j.name or 'hdr_get_uint64' in j.name or '/n8' in j.name or 'oversize' in j.name)]
    return js + (sel[:12] if tier == 'quick' else sel)
