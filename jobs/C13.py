# C13 Caller buffers are respected; attached-buffer accounting is exact.
import C05, C02
LEVEL = 'other'
TRUSTED = ['MPI_Unpack touches exactly the type map of the buffer datatype']
ASSUMPTIONS = ['ncmpii_in_swapn is replaced by a contract that counts in-place swaps per caller buffer']
EXPLANATION = ('swap parity of the caller buffer on every return path of put_varm; cancel restores a swapped buffer exactly once and releases the '
               'attached-buffer slot, accounting stays well-formed; in-place swap only when permitted')
KNOWN_OPEN = 'F15'

def jobs(tier, ws):
    js = [j for j in C05.jobs(tier, ws, prop='C13') if 'put_varm' in j.name]
    js += [j for j in C02.cancel_jobs(tier, 'C13') if '/put/' in j.name]
    js += C02.commit_jobs(tier, 'C13', only=[(2, 1), (3, 2)] if tier == 'quick' else None)   # buffers released / swapped back exactly for the completed requests
    return js
