# C13 Caller buffers are respected; attached-buffer accounting is exact.
import C05, C02
from engine import Job
LEVEL = 'other'
TRUSTED = ['MPI_Unpack touches exactly the type map of the buffer datatype']
ASSUMPTIONS = ['ncmpii_in_swapn is replaced by a contract that counts in-place swaps per caller buffer']
EXPLANATION = ('swap parity of the caller buffer on every return path of put_varm; cancel restores a swapped buffer exactly once and releases the '
               'attached-buffer slot, accounting stays well-formed; in-place swap only when permitted')
KNOWN_OPEN = 'F15'

def jobs(tier, ws):
    js = [j for j in C05.jobs(tier, ws, prop='C13') if 'put_varm' in j.name]
    js += [j for j in C02.cancel_jobs(tier, 'C13') if '/put/' in j.name]
    js += C02.commit_jobs(tier, 'C13', only=[(2, 1), (3, 2)] if tier == 'quick' else None)   # buffers released / swapped back exactly for the completed requests
    GP = ['src/drivers/ncmpio/ncmpio_i_getput.m4', 'src/drivers/common/utils.c', 'src/drivers/common/error_mpi2nc.c']
    for tail in ((0, 2, 127) if tier == 'quick' else (0, 1, 2, 126, 127)):
        js.append(Job('C13/ncmpio_abuf_malloc/tail%d' % tail, 'C13', GP, 'C13_abuf.c', enforce='ncmpio_abuf_malloc', defines=['-DTAIL=%d' % tail], canaries=['buffer_exactly_filled'] + (['table_grown'] if tail == 127 else []),
                      unwind=4, kind='bounded', timeout=300, solver=['--sat-solver', 'cadical'], checks=['--arrays-uf-always'], bound='occupancy table of 128 entries with %d in use; attached buffer <= 4096 bytes; sizes symbolic' % tail))
    for tail in ((1, 3) if tier == 'quick' else (1, 2, 3, 128)):
        js.append(Job('C13/ncmpio_abuf_dealloc/tail%d' % tail, 'C13', GP, 'C13_abuf.c', enforce='ncmpio_abuf_dealloc', defines=['-DH_dealloc', '-DTAIL=%d' % tail], canaries=(['table_empty_again'] if tail == 1 else []),
                      unwind=4, kind='bounded', timeout=300, solver=['--sat-solver', 'cadical'], checks=['--arrays-uf-always'], bound='occupancy table of 128 entries with %d in use; sizes symbolic' % tail))
    return js
