# C04 Any specification-valid classic file is read back exactly (header parser part).
from engine import Job
LEVEL = 'other'
TRUSTED = ['stubs/mpi_model.c file-content model: a read delivers the bytes of the modelled file, short at its end', 'MPI_Bcast delivers the root buffer (only rank 0 is verified)']
ASSUMPTIONS = ['window position PPOS and chunk size are enumerated constants; file content and length symbolic', 'names / values bounded by NAMEB bytes in the content clauses']
EXPLANATION = ('header parser functions (ncmpio_header_get.c) enforced against the logical-stream spec: values decoded equal the stream bytes '
               'wherever the chunk boundary falls; hdr_fetch replaced by its contract in the decoders')
HG = ['src/drivers/ncmpio/ncmpio_header_get.c', 'src/drivers/common/error_mpi2nc.c', 'src/drivers/common/ncx.m4']
MODEL = ['stubs/mpi_model.c']

def mk(name, fn, defs, canaries, replace=(), unwind=44, kind='bounded', bound=None, prop='C04', timeout=600, **kw):
    return Job('%s/%s' % (prop, name), prop, HG, 'C04_hdr.c', enforce='ncmpio_header_get.c:' + fn, replace=replace,
               defines=defs, extra_src=MODEL, canaries=canaries, unwind=unwind, kind=kind, bound=bound, timeout=timeout,
               function_label=fn, **kw)

def jobs(tier, ws, prop='C04'):
    js = []
    chunks = [36] if tier == 'quick' else [36, 40]
    FETCH = ['ncmpio_header_get.c:hdr_fetch']
    for ch in chunks:
        pp_fetch = [1, 29, 33, 35, 36] if tier == 'quick' else list(range(1, ch + 1))
        pp_dec = [4, 29, 32, 33, 35, 36] if tier == 'quick' else list(range(0, ch + 1))
        if tier != 'quick' and ch != 36:
            # second chunk size: every third position plus the whole boundary region (all positions of chunk 36 are
            # covered above; the full product is 2114 jobs / > 4 h, and every position of chunk 40 is also run by C19 thorough)
            pp_fetch = [q for q in pp_fetch if q % 3 == 1 or q > ch - 10]
            pp_dec = [q for q in pp_dec if q % 3 == 0 or q > ch - 10]
        b = 'chunk=%d, window position enumerated' % ch
        for inj in (0, 1):
            js.append(mk('hdr_fetch/initial/c%d/inj%d' % (ch, inj), 'hdr_fetch', ['-DH_fetch', '-DCONTRACT_FETCH_INITIAL', '-DCHUNK=%d' % ch, '-DINJECT=%d' % inj],
                         ['noerr'] + (['failed'] if inj else []), bound=b, prop=prop))
            for pp in pp_fetch:
                js.append(mk('hdr_fetch/c%d/p%d/inj%d' % (ch, pp, inj), 'hdr_fetch', ['-DH_fetch', '-DCHUNK=%d' % ch, '-DPPOS=%d' % pp, '-DINJECT=%d' % inj],
                             ['noerr'] + (['failed'] if inj else []), bound=b, prop=prop))
        for pp in pp_dec:
            d = ['-DCHUNK=%d' % ch, '-DPPOS=%d' % pp, '-DINJECT=1']
            js.append(mk('hdr_get_uint32/c%d/p%d' % (ch, pp), 'hdr_get_uint32', ['-DH_uint32'] + d, ['noerr'] + (['fetched'] if pp > ch - 4 else []), replace=FETCH, bound=b, prop=prop))
            js.append(mk('hdr_get_uint64/c%d/p%d' % (ch, pp), 'hdr_get_uint64', ['-DH_uint64'] + d, ['noerr'] + (['fetched'] if pp > ch - 8 else []), replace=FETCH, bound=b, prop=prop))
            js.append(mk('hdr_get_NC_tag/c%d/p%d' % (ch, pp), 'hdr_get_NC_tag', ['-DH_tag'] + d, ['noerr'], replace=FETCH, bound=b, prop=prop))
            for ver in (1, 5):
                js.append(mk('hdr_get_nc_type/c%d/p%d/v%d' % (ch, pp, ver), 'hdr_get_nc_type', ['-DH_type', '-DFMTVER=%d' % ver] + d, ['noerr', 'ebadtype'], replace=FETCH, bound=b, prop=prop))
                # name decoder: callees (hdr_get_uint32/64, hdr_fetch, MPI read model) inlined so that sizes are
                # concrete; length enumerated; each callee is enforced against its own contract above
                if tier == 'quick':
                    nlens = ([3, 8] if pp in (4, 33, 35) else []) if ver == 1 else ([8] if pp in (29, 35) else [])
                else:
                    nlens = range(0, 9) if ch == 36 else (0, 3, 8)
                nlens = list(nlens)
                for nlen in nlens:
                    big = False
                    js.append(mk('hdr_get_NC_name/c%d/p%d/v%d/n%d' % (ch, pp, ver, nlen), 'hdr_get_NC_name',
                                 ['-DH_name', '-DFMTVER=%d' % ver, '-DNLEN=%d' % nlen, '-DNAMEB=8'] + (['-DG_FILE_MAX=320'] if big else []) + d, ['noerr'],
                                 unwindset=['ncmpio_header_get.c:hdr_get_NC_name.0:%d' % (24 if big else 4)],
                                 bound=b + ', name length = %d (enumerated)' % nlen, prop=prop, object_bits=10,
                                 assumptions=['hdr_get_NC_name jobs inline hdr_get_uint32/64 and hdr_fetch (each enforced against its own contract in its own job)']))
                if tier != 'quick' or (pp == 4 and ver == 5):
                  js.append(mk('hdr_get_NC_name/oversize/c%d/p%d/v%d' % (ch, pp, ver), 'hdr_get_NC_name',
                             ['-DH_name', '-DFMTVER=%d' % ver, '-DNAME_OVERSIZE', '-DOVERSIZE_LOW=%d' % (1 + pp % 7)] + d, ['emaxname'], unwindset=['ncmpio_header_get.c:hdr_get_NC_name.0:4'], bound=b, prop=prop, object_bits=10))
    # the longest legal name (NC_MAX_NAME = 256 bytes): acceptance boundary of the length test.  Copying 256 bytes over eight refills
    # exhausts memory under DFCC (and without it), so the instance puts the length field at the end of the window and lets the first
    # refill fail: a correct parser passes the length test and returns the I/O error, NC_EMAXNAME is returned only for a longer name
    for ver in (1, 5):
        js.append(mk('hdr_get_NC_name/longest_legal_name/v%d' % ver, 'hdr_get_NC_name',
                     ['-DH_name', '-DFMTVER=%d' % ver, '-DNAME_BOUNDARY', '-DCHUNK=36', '-DPPOS=%d' % (32 if ver == 1 else 28), '-DINJECT=1'],
                     ['longest_legal_name_passes_the_length_test_and_reaches_the_refill'], unwindset=['ncmpio_header_get.c:hdr_get_NC_name.0:4'],
                     bound='chunk=36, length field at the end of the window, encoded name length = 256 (NC_MAX_NAME), first refill fails', prop=prop, object_bits=10))
    if prop == 'C04':
        import C19
        js += [j for j in C19.var_jobs(tier, 'C04') if 'ndims2' in j.name or tier != 'quick']   # dimension ids decoded exactly, in order
    return js
