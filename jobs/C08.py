# C08 Collective calls match on all ranks: no deadlock, errors stay local.
import C05, C11, C16, C06
from engine import Job
LEVEL = 'other'
TRUSTED = ['MPI is deadlock-free when all ranks issue the same sequence of collectives']
ASSUMPTIONS = ['sufficient condition checked per function: the sequence of collective MPI calls does not depend on rank-local outcomes (errors, zero-length requests)']
EXPLANATION = 'ghost collective trace of the MPI model: functions enforced against "collectives issued whatever the local outcome" clauses (C08_*)'

def close_files_job(prop):
    return Job('%s/ncmpio_close_files' % prop, prop, ['src/drivers/ncmpio/ncmpio_close.c', 'src/drivers/common/error_mpi2nc.c'], 'C08_close_files.c', enforce='ncmpio_close_files',
               canaries=['removed', 'failed_removal_still_synchronised', 'independent_close_failed_collective_still_closed'], unwind=8, kind='proof', timeout=300,
               assumptions=['ncmpio_close_files: MPI_File_close / MPI_File_delete / MPI_Barrier are harness stubs recording the call sequence, each may fail; process count 1..4 symbolic'])

def jobs(tier, ws):
    js = [j for j in C05.jobs(tier, ws, prop='C08') if 'stride0' in j.name or 'sync_numrecs' in j.name or 'write_numrecs' in j.name]
    js += [j for j in C11.jobs(tier, ws, prop='C08') if 'read_write' in j.name]
    js += [j for j in C16.jobs(tier, ws, prop='C08')][:3]
    js += [j for j in C06.jobs(tier, ws, prop='C08') if 'move_file_block' in j.name][:2]
    import C02
    js += C02.commit_jobs(tier, 'C08', only=[(2, 0), (2, 2)] if tier == 'quick' else None)   # collective sequence of a wait does not depend on the local selection
    js.append(Job('C08/check_consistency_put', 'C08', ['src/dispatchers/attr_getput.m4', 'src/drivers/common/error_mpi2nc.c'], 'C08_consistency.c',
                  enforce='attr_getput.c:check_consistency_put', extra_src=['stubs/mpi_model.c'], canaries=['consistent_with_values', 'consistent_empty', 'length_disagreement', 'early_agreed_error'],
                  unwind=26, kind='bounded', timeout=600, bound='names <= 3 characters, attributes <= 2 elements; rank, process count, local arguments symbolic',
                  assumptions=['MPI_Bcast of a scalar delivers the agreed (root) value; a broadcast character buffer is NUL-terminated']))
    if True:
        js.append(close_files_job('C08'))
    return js
