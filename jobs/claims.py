# What MANIFEST.json claims per property (bin/mkmanifest turns this into MANIFEST.json).
CLAIMS = {
 'C09': {'level': 'proof',
         'text': 'Every scalar conversion function of the regenerated ncx.c (all external x memory type pairs compiled in this configuration) is checked against a contract generated from its type pair and the spec (accept representable / reject unrepresentable incl. NaN / exact value / fill on NC_ERANGE / frame) over its full 2^8..2^64 input domain; the functions are loop-free so this is an unbounded proof per function. Array loops (putn/getn) and dispatch tables are bounded or listed as not yet under contract in the evidence.',
         'note': 'trusted: CBMC float theory = IEEE-754 RNE, little-endian host, memcpy model; float->int conversion UB is decided by CBMC and confirmed by a UBSan run of the real code (CBMC bound imprecision for float32 sources); open known finding F16 (get of exactly 2^63/2^64 saturates)'},
}
