# What MANIFEST.json claims per property (bin/mkmanifest turns this into MANIFEST.json).
CLAIMS = {
 'C09': {'level': 'proof',
         'text': 'Every scalar conversion function of the regenerated ncx.c (all external x memory type pairs compiled in this configuration) is checked against a contract generated from its type pair and the spec (accept representable / reject unrepresentable incl. NaN / exact value / fill on NC_ERANGE / frame) over its full 2^8..2^64 input domain; the functions are loop-free so this is an unbounded proof per function. Array loops (putn/getn) and dispatch tables are bounded or listed as not yet under contract in the evidence.',
         'note': 'trusted: CBMC float theory = IEEE-754 RNE, little-endian host, memcpy model; float->int conversion UB is decided by CBMC and confirmed by a UBSan run of the real code (CBMC bound imprecision for float32 sources); open known finding F16 (get of exactly 2^63/2^64 saturates)'},
 'C17': {'level': 'proof',
         'text': 'The file-id table functions of dispatchers/file.c (PNC_check_id, new_id_PNCList, del_from_PNCList) are enforced against contracts on the real 1024-slot table: a not-open id always gets NC_EBADID and never a NULL file object, a new id is the first free slot, NC_ENFILE iff the table is full, release frees exactly that slot; the scan loop is closed by a loop contract (unbounded).',
         'note': 'representation invariant of the table used in slot form (ghost slot / ghost free-slot witness); resource balance of create/open/close paths and ncmpio_cancel datatype frees not yet under contract (listed in DESIGN)'},
 'C15': {'level': 'other',
         'text': 'check_EINVALCOORDS and check_EEDGE (regenerated var_getput.c) are enforced against the documented per-dimension request rule evaluated in 128-bit arithmetic: coordinate rule and unstrided edge rule plus all overflow obligations on the full 64-bit domain (proof); the strided edge rule (64-bit divide vs 128-bit product) with the stride enumerated as constants and with small symbolic widths (bounded).',
         'note': 'bounded part: stride in an enumerated set of constants, or count/stride < 2^5..2^7; check_start_count_stride loop and dispatcher entries not yet under contract'},
 'C11': {'level': 'proof',
         'text': 'Functions issuing MPI-IO data transfers are enforced against "a failure injected by the MPI model at any one data-transfer call, with any error class, makes the function return an error"; the functions covered are loop-free after the model is linked.',
         'note': 'trusted: the MPI model (stubs/mpi_model.c) - one failure per call, error classes from the modelled list; functions covered so far are listed in the evidence'},
}
