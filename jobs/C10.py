# C10 Hints, process count and execution modes never change results.
import C05, C03
from engine import Job
LEVEL = 'other'
TRUSTED = []
ASSUMPTIONS = ['only the decision points are under contract: in-place swap decision (put_varm), alignment resolution (ncmpio__enddef); equality of whole files across configurations is not decided']
EXPLANATION = 'hint-dependent decisions enforced against: in-place swap only when permitted and the buffer type is contiguous; alignment precedence hint > argument > default, values in force multiples of 4'

def jobs(tier, ws):
    js = [j for j in C05.jobs(tier, ws, prop='C10') if 'put_varm/stride0' in j.name or 'put_varm/stride1' in j.name]
    js += [j for j in C03.jobs(tier, ws, prop='C10') if 'ncmpio__enddef' in j.name]
    for nd, el in ([(1, 4), (2, 4)] if tier == 'quick' else [(1, 1), (1, 4), (2, 1), (2, 4), (2, 8), (3, 2)]):
        cm, sm = (3, 4) if nd < 3 else (2, 2)
        js.append(Job('C10/flatten_subarray/ndim%d_elsize%d' % (nd, el), 'C10', ['src/drivers/ncmpio/ncmpio_intra_node.c'], 'C10_flatten.c', enforce='ncmpio_intra_node.c:flatten_subarray',
                      defines=['-DNDIM=%d' % nd, '-DELSZ=%d' % el, '-DCMAX=%d' % cm, '-DSMAX=%d' % sm], canaries=['strided_three'] + (['single_run'] if nd == 1 else ['element_runs']), unwind=12, kind='bounded', timeout=600, solver=['--sat-solver', 'cadical'],
                      bound='%d-D variable with dimension lengths (7,5,6)[:%d] (enumerated), element size %d; start, count (1..%d), stride (1..%d) symbolic within the variable' % (nd, nd, el, cm, sm)))
    return js
