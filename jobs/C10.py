# C10 Hints, process count and execution modes never change results.
import C05, C03
LEVEL = 'other'
TRUSTED = []
ASSUMPTIONS = ['only the decision points are under contract: in-place swap decision (put_varm), alignment resolution (ncmpio__enddef); equality of whole files across configurations is not decided']
EXPLANATION = 'hint-dependent decisions enforced against: in-place swap only when permitted and the buffer type is contiguous; alignment precedence hint > argument > default, values in force multiples of 4'

def jobs(tier, ws):
    js = [j for j in C05.jobs(tier, ws, prop='C10') if 'put_varm/stride0' in j.name or 'put_varm/stride1' in j.name]
    js += [j for j in C03.jobs(tier, ws, prop='C10') if 'ncmpio__enddef' in j.name]
    return js
