# C12 Burst-buffer driver is transparent to the application (request table part).
from engine import Job, REPO
LEVEL = 'other'
TRUSTED = ['POSIX log files; the default driver underneath']
ASSUMPTIONS = ['ncbbio sources are compiled with -DENABLE_BURST_BUFFER although the baseline build does not enable the driver',
               'equality of the destination file with the default-driver run, log-file removal and shared logs are whole-program / file-system facts: not decided']
EXPLANATION = 'nonblocking request table of the burst-buffer driver: cancel invalidates exactly the log entries of the cancelled request'
BB = ['-DENABLE_BURST_BUFFER', '-I%s/src/drivers/ncbbio' % REPO]

def jobs(tier, ws):
    return [Job('C12/ncbbio_cancel_put_req', 'C12', ['src/drivers/ncbbio/ncbbio_nonblocking.c'], 'C12_bb.c', enforce='ncbbio_cancel_put_req',
                replace=['ncbbio_put_list_remove'], defines=BB, tu_defines=BB, canaries=['cancelled', 'too_late', 'unknown'], unwind=8, kind='bounded',
                bound='log index of 5 entries, request table of 2 slots; ids, ranges, flags symbolic', timeout=300)] + [
            Job('C12/ncbbio_log_flush_core/entries%d' % n, 'C12', ['src/drivers/ncbbio/ncbbio_log_flush.c'], 'C12_flush.c', enforce='ncbbio_log_flush_core', defines=BB + ['-DNENT=%d' % n], tu_defines=BB,
                extra_src=['stubs/mpi_model.c'], rfp=True, canaries=['whole_log_in_one_batch', 'cancelled_entry_skipped'] + (['one_entry_per_batch', 'read_in_two_pieces_around_a_gap'] if n >= 3 else []),
                unwind=26, kind='bounded', timeout=900, mem_gb=14, solver=['--sat-solver', 'cadical'],
                unwindset=['ncbbio_log_flush_core.%d:%d' % (l, b) for l, b in ((0, n + 1), (1, n + 1), (2, 1), (3, n + 1), (4, n + 1), (5, n + 2), (6, n + 4))],
                bound='%d vara log entries of 1..4 data bytes, validity, flush-buffer size (0..64) and mode flags symbolic' % n,
                assumptions=['ncbbio_log_flush_core: the shared-file layer (seek/read) and the underlying driver (iput_var, wait) are harness stubs that track which log position every staging-buffer byte came from'])
            for n in ((2, 3) if tier == 'quick' else (1, 2, 3, 4))]
