# C12 Burst-buffer driver is transparent to the application (request table part).
from engine import Job, REPO
LEVEL = 'other'
TRUSTED = ['POSIX log files; the default driver underneath']
ASSUMPTIONS = ['ncbbio sources are compiled with -DENABLE_BURST_BUFFER although the baseline build does not enable the driver',
               'equality of the destination file with the default-driver run, log-file removal and shared logs are whole-program / file-system facts: not decided']
EXPLANATION = 'nonblocking request table of the burst-buffer driver: cancel invalidates exactly the log entries of the cancelled request'
BB = ['-DENABLE_BURST_BUFFER', '-I%s/src/drivers/ncbbio' % REPO]

def jobs(tier, ws):
    return [Job('C12/ncbbio_cancel_put_req', 'C12', ['src/drivers/ncbbio/ncbbio_nonblocking.c'], 'C12_bb.c', enforce='ncbbio_cancel_put_req',
                replace=['ncbbio_put_list_remove'], defines=BB, tu_defines=BB, canaries=['cancelled', 'too_late', 'unknown'], unwind=8, kind='bounded',
                bound='log index of 5 entries, request table of 2 slots; ids, ranges, flags symbolic', timeout=300)]
