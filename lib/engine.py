# Contract-verification engine: real /repo translation units -> goto-cc ->
# goto-instrument --dfcc (function contracts) -> cbmc.  See DESIGN.md section 1.
#
# A "job" is one enforcement run: one real function checked against the
# contract declared for it in /verif/contracts, callees optionally replaced by
# their contracts, on one harness instance (compile-time shape constants).
import os, re, sys, json, time, shlex, shutil, hashlib, tempfile, subprocess, resource, threading
from concurrent.futures import ThreadPoolExecutor

VERIF = os.path.dirname(os.path.dirname(os.path.abspath(__file__)))
REPO = os.environ.get('VERIF_REPO', '/repo')
MPI_INC = '/usr/lib/x86_64-linux-gnu/openmpi/include'
BASE_INC = ['-DHAVE_CONFIG_H', '-I%s/src/include' % REPO, '-I%s/src/drivers/include' % REPO,
            '-I%s/src/drivers/ncmpio' % REPO, '-I%s/src/drivers/common' % REPO,
            '-I%s/src/dispatchers' % REPO, '-I' + MPI_INC]
VERIF_INC = ['-I%s/spec' % VERIF, '-I%s/contracts' % VERIF, '-I%s/stubs' % VERIF, '-I%s/harness' % VERIF,
             '-DPNC_VERIF_CBMC']
DEFAULT_CHECKS = ['--bounds-check', '--pointer-check', '--div-by-zero-check', '--signed-overflow-check',
                  '--undefined-shift-check', '--pointer-overflow-check', '--no-malloc-may-fail',
                  '--unwinding-assertions']
NCORES = int(os.environ.get('VERIF_JOBS', '14'))

INFRA = 2


class Infra(Exception):
    """infrastructure problem: exit 2, never a violation"""


def sh(cmd, timeout, mem_gb=8, cwd=None, env=None):
    def lim():
        b = int(mem_gb * (1 << 30))
        resource.setrlimit(resource.RLIMIT_AS, (b, b))
        os.setsid()
    t0 = time.time()
    try:
        p = subprocess.run(cmd, stdout=subprocess.PIPE, stderr=subprocess.PIPE, timeout=timeout,
                           preexec_fn=lim, cwd=cwd, env=env)
        return p.returncode, p.stdout.decode('utf-8', 'replace'), p.stderr.decode('utf-8', 'replace'), time.time() - t0
    except subprocess.TimeoutExpired as e:
        return -9, (e.stdout or b'').decode('utf-8', 'replace'), 'TIMEOUT after %ss' % timeout, time.time() - t0


class Workspace:
    def __init__(self, keep=False):
        base = os.environ.get('TMPDIR', '/tmp')
        self.dir = tempfile.mkdtemp(prefix='pnc-verif.', dir=base)
        self.keep = keep
        self.lock = threading.Lock()
        self.cache = {}
        self.locks = {}

    def close(self):
        if not self.keep:
            shutil.rmtree(self.dir, ignore_errors=True)

    # ---- source preparation -------------------------------------------------
    def _makevars(self, d):
        mk = os.path.join(d, 'Makefile')
        vars_ = {}
        if os.path.exists(mk):
            for line in open(mk, errors='replace'):
                m = re.match(r'^([A-Za-z_][A-Za-z0-9_]*)\s*=\s*(.*)$', line.rstrip('\n'))
                if m and m.group(1) not in vars_:
                    vars_[m.group(1)] = m.group(2)
        return vars_

    def _expand(self, s, vars_, depth=0):
        if depth > 8:
            return s
        def rep(m):
            return self._expand(vars_.get(m.group(1) or m.group(2), ''), vars_, depth + 1)
        return re.sub(r'\$\((\w+)\)|\$\{(\w+)\}', rep, s)

    def once(self, key, fn):
        with self.lock:
            lk = self.locks.setdefault(key, threading.Lock())
        with lk:
            if key not in self.cache:
                self.cache[key] = fn()
            return self.cache[key]

    def source(self, rel):
        """Return path of the C file for repo-relative source `rel`.  .m4 sources are
        regenerated on every run with the M4FLAGS of the directory's Makefile."""
        def gen():
            src = os.path.join(REPO, rel)
            if not os.path.exists(src):
                raise Infra('source missing: ' + rel)
            if not rel.endswith('.m4'):
                return src
            d = os.path.dirname(src)
            vars_ = self._makevars(d)
            if 'M4FLAGS' not in vars_:
                raise Infra('no M4FLAGS in %s/Makefile (repo not configured?)' % d)
            flags = shlex.split(self._expand(vars_['M4FLAGS'] + ' ' + vars_.get('AM_M4FLAGS', ''), vars_))
            outd = os.path.join(self.dir, 'gen', hashlib.md5(d.encode()).hexdigest()[:8])
            os.makedirs(outd, exist_ok=True)
            out = os.path.join(outd, os.path.basename(rel)[:-3] + '.c')
            rc, so, se, _ = sh(['m4'] + flags + [os.path.basename(src)], 120, cwd=d)
            if rc != 0:
                raise Infra('m4 failed on %s: %s' % (rel, se[-400:]))
            open(out, 'w').write(so)
            return out
        return self.once(('src', rel), gen)

    def geninc(self):
        """Headers that the build generates from .m4 (ncx.h) are regenerated per run."""
        def gen():
            d = os.path.join(self.dir, 'geninc')
            os.makedirs(d, exist_ok=True)
            c = self.source('src/drivers/include/ncx_h.m4')
            shutil.copy(c, os.path.join(d, 'ncx.h'))
            return d
        return self.once(('geninc',), gen)

    def inc(self):
        return ['-I' + self.geninc()] + BASE_INC

    def compile_tu(self, rel, defines=()):
        def comp():
            c = self.source(rel)
            d = os.path.dirname(os.path.join(REPO, rel))
            tag = hashlib.md5((rel + ' '.join(defines)).encode()).hexdigest()[:10]
            out = os.path.join(self.dir, 'tu_%s_%s.gb' % (os.path.basename(c)[:-2], tag))
            cmd = ['goto-cc', '--export-file-local-symbols'] + self.inc() + ['-I' + d] + list(defines) + ['-c', c, '-o', out]
            rc, so, se, _ = sh(cmd, 600, mem_gb=8)
            if rc != 0 or not os.path.exists(out):
                raise Infra('goto-cc failed on %s: %s' % (rel, (se + so)[-800:]))
            return out
        return self.once(('tu', rel, tuple(defines)), comp)


CLAUSE_TAG = re.compile(r'/\*@\s*([\w./:-]+)\s*\*/')
_tagcache = {}


def clause_name(file_, line):
    """Obligation name of a contract clause = the /*@name*/ tag on its source line."""
    if not file_ or not line:
        return None
    key = file_
    if key not in _tagcache:
        try:
            _tagcache[key] = open(file_, errors='replace').read().split('\n')
        except OSError:
            _tagcache[key] = []
    lines = _tagcache[key]
    i = int(line) - 1
    # the tag sits at the end of the clause, which may span a few lines
    for k in range(i, min(i + 6, len(lines))):
        if k > i and re.match(r'\s*(__CPROVER_|;|#)', lines[k]):
            break
        m = CLAUSE_TAG.search(lines[k])
        if m:
            return m.group(1)
    return None


# obligation classes that are reported by CBMC but are outside every property (DESIGN 1.4):
#  - comparing a pointer a few bytes past one-past-the-end (strict C UB, not sanitizer-visible)
#  - integer<->integer narrowing / sign conversions (implementation-defined, not UB)
FILTER_STRICT = re.compile(r'pointer (relation|arithmetic): pointer outside object bounds|'
                           r'arithmetic overflow on (signed|unsigned)( to (signed|unsigned))? type conversion')


class Job:
    """One enforcement run.  Fields:
       name       unique id, e.g. C09/ncmpix_put_NC_INT_double
       prop       property id
       tus        repo-relative sources linked in (real code)
       harness    file under /verif/harness
       entry      harness function
       enforce    function under contract (static: 'file.c:fn')
       replace    callees replaced by their contracts
       defines    -D for harness (shape constants) ; tu_defines for the TUs
       unwind     loop bound handed to cbmc
       kind       'proof' | 'bounded' ; bound = text
       canaries   names of canary assertions that must FAIL (reachability of outcomes)
       checks     extra cbmc flags
       plain      bounded stand-in WITHOUT contract instrumentation: the harness calls the real function and asserts
                  the clauses itself (__CPROVER_assert(e, "clause:<name>")); always kind='bounded', never counted as proof
    """
    def __init__(self, name, prop, tus, harness, enforce=None, replace=(), defines=(), tu_defines=(),
                 entry='harness', unwind=8, kind='proof', bound=None, canaries=(), checks=(),
                 extra_src=(), timeout=300, mem_gb=8, rfp=False, replay=None, function_label=None,
                 loop_contracts=False, solver=(), arbiter=None, include_tus=None, loops=None, unwindset=(), nondet_static=False, object_bits=10, assumptions=(),
                 no_default=(), enforce_rec=False, plain=False):
        self.__dict__.update(locals())
        del self.__dict__['self']


def mangle(spec):
    """'file.c:fn' -> CBMC's exported name of a file-local symbol."""
    if '::' in spec:
        # static function of a source that the harness #includes: the contract symbol carries the
        # plain name, the function the exported file-local name
        f, fn = spec.split('::')
        return '__CPROVER_file_local_%s_%s/%s' % (re.sub(r'\W', '_', f), fn, fn)
    if ':' in spec:
        f, fn = spec.split(':')
        return '__CPROVER_file_local_%s_%s' % (re.sub(r'\W', '_', f), fn)
    return spec


class Result:
    def __init__(self, job):
        self.job = job
        self.status = None      # 'ok' | 'fail' | 'infra'
        self.msg = ''
        self.obligations = []   # dicts: id, name, class, status, line, file, description
        self.failures = []
        self.canary_ok = []
        self.canary_dead = []
        self.filtered = 0
        self.secs = {}
        self.cmds = []
        self.trace_inputs = {}
        self.raw_tail = ''


def run_job(ws, job, extra_defines=(), want_trace=True):
    r = Result(job)
    try:
        _run_job(ws, job, r, tuple(extra_defines), want_trace)
    except Infra as e:
        r.status = 'infra'
        r.msg = str(e)
    return r


# default SAT back end when a job names none (MiniSat when empty); development override through VERIF_SOLVER
DEFAULT_SOLVER = os.environ.get('VERIF_SOLVER', '').split()

def _run_job(ws, job, r, extra_defines, want_trace):
    tag = hashlib.md5((job.name + ' '.join(extra_defines)).encode()).hexdigest()[:10]
    base = os.path.join(ws.dir, 'job_' + re.sub(r'\W', '_', job.name)[-60:] + '_' + tag)
    t0 = time.time()
    gbs = [ws.compile_tu(t, tuple(job.tu_defines)) for t in job.tus]
    r.secs['compile_tus'] = round(time.time() - t0, 2)
    hsrc = os.path.join(VERIF, 'harness', job.harness)
    srcs = [hsrc] + [os.path.join(VERIF, s) for s in job.extra_src]
    a = base + '_a.gb'
    inc_dirs = ['-I' + os.path.dirname(os.path.join(REPO, t)) for t in job.tus]
    gen_dirs = ['-I' + os.path.dirname(ws.source(t)) for t in job.tus if t.endswith('.m4')]
    inc_defs = []
    for macro, rel in (job.include_tus or {}).items():
        # the real source is #included by the harness TU (needed to reach file-scope static variables)
        inc_defs.append('-D%s="%s"' % (macro, ws.source(rel)))
        inc_dirs.append('-I' + os.path.dirname(os.path.join(REPO, rel)))
    cmd = ['goto-cc', '--export-file-local-symbols', '--function', job.entry] + ws.inc() + VERIF_INC + inc_dirs + gen_dirs + \
          inc_defs + list(job.defines) + list(extra_defines) + srcs + gbs + ['-o', a]
    rc, so, se, dt = sh(cmd, 600)
    r.secs['link'] = round(dt, 2)
    r.cmds.append(' '.join(cmd))
    if rc != 0:
        raise Infra('harness compile/link failed: ' + (se + so)[-1500:])
    b = base + '_b.gb'
    if job.plain:
        if job.kind == 'proof' or job.enforce or job.replace:
            raise Infra('plain job must be bounded and name no contract')
        shutil.copy(a, b)
    cmd = ['goto-instrument']
    if job.rfp:
        cmd += ['--remove-function-pointers']
    if job.nondet_static:
        cmd += ['--nondet-static']
    cmd += ['--no-malloc-may-fail', '--dfcc', job.entry]   # OOM paths are outside every property (DESIGN 2.2)
    if job.enforce:
        # recursive functions: recursive calls are assumed to satisfy the contract being enforced
        cmd += ['--enforce-contract-rec' if job.enforce_rec else '--enforce-contract', mangle(job.enforce)]
    for g in job.replace:
        cmd += ['--replace-call-with-contract', mangle(g)]
    if job.loops:
        lf = write_loop_contracts(ws, job, a, base)
        cmd += ['--apply-loop-contracts', '--loop-contracts-file', lf]
    elif job.loop_contracts:
        cmd += ['--apply-loop-contracts']
    cmd += [a, b]
    if job.plain:
        rc, so, se, dt = 0, '', '', 0.0
    else:
        rc, so, se, dt = sh(cmd, 900, mem_gb=job.mem_gb)
        r.cmds.append(' '.join(cmd))
    r.secs['instrument'] = round(dt, 2)
    if rc != 0 or not os.path.exists(b):
        raise Infra('goto-instrument failed: ' + (se + so)[-1500:])
    checks = [c for c in DEFAULT_CHECKS if c not in job.no_default] + list(job.checks)
    cmd = ['cbmc', b, '--json-ui', '--unwind', str(job.unwind)] + (['--function', job.entry] if job.plain else []) + checks + (list(job.solver) or DEFAULT_SOLVER)
    if job.object_bits:
        cmd += ['--object-bits', str(job.object_bits)]
    for us in job.unwindset:
        # 'file.c:fn.N:K' -> per-loop bound (loop N of fn), still checked by its unwinding assertion
        fnpart, k = us.rsplit(':', 1)
        fn, n = fnpart.rsplit('.', 1)
        m = mangle(fn).split('/')[0]
        cmd += ['--unwindset', '%s.%s:%s' % (m, n, k)]
        # the function under enforcement is renamed by DFCC
        cmd += ['--unwindset', '%s_wrapped_for_contract_checking.%s:%s' % (m, n, k)]
    r.cmds.append(' '.join(cmd))
    results, out = _cbmc(cmd, job, r)
    # CBMC 6 leaves obligations UNKNOWN once another one on their path has failed (e.g. a canary or a
    # filtered strict-C check): decide them in a second pass restricted to exactly those obligations
    for _ in range(3):
        unk = [x['property'] for x in results if x['status'] not in ('SUCCESS', 'FAILURE')]
        if not unk:
            break
        cmd2 = cmd + [a for u in unk for a in ('--property', u)]
        try:
            res2, out2 = _cbmc(cmd2, job, r)
        except Infra:
            break   # e.g. an obligation id that does not exist in the restricted run
        got = {x['property']: x for x in res2}
        progressed = False
        for i, x in enumerate(results):
            y = got.get(x['property'])
            if x['status'] not in ('SUCCESS', 'FAILURE') and y is not None and y['status'] in ('SUCCESS', 'FAILURE'):
                results[i] = y
                progressed = True
        out = out + out2
        if not progressed:
            break
    if any('not enough arguments' in (o.get('messageText') or '') for o in out):
        raise Infra('cbmc: call with missing arguments (nested call inside a spec function under DFCC) - result would be unsound')
    if any('ignoring' in (o.get('messageText') or '') for o in out):
        raise Infra('cbmc ignored a quantifier')
    # counterexample traces only for the (first few) failing non-canary obligations: --trace on every
    # failure is what makes a failing run slow
    if want_trace:
        bad = [x['property'] for x in results if x['status'] == 'FAILURE' and not x.get('description', '').startswith('canary:')
               and not FILTER_STRICT.search(x.get('description', ''))][:6]
        if bad:
            try:
                res3, _ = _cbmc(cmd + ['--trace'] + [a for u in bad for a in ('--property', u)], job, r)
                tr = {x['property']: x.get('trace') for x in res3 if x['status'] == 'FAILURE'}
                for x in results:
                    if x['property'] in tr:
                        x['trace'] = tr[x['property']]
            except Infra:
                pass
    canary_seen = {}
    for x in results:
        loc = x.get('sourceLocation') or {}
        desc = x.get('description', '')
        cls = loc.get('propertyClass') or x['property'].split('.')[-2] if '.' in x['property'] else ''
        f = loc.get('file')
        if f and not os.path.isabs(f):
            f = os.path.join(loc.get('workingDirectory', ''), f)
        nm = None
        if cls in ('postcondition', 'precondition', 'assigns', 'frees'):
            nm = clause_name(f, loc.get('line'))
        if desc.startswith('canary:'):
            canary_seen[desc[7:]] = x['status']
            continue
        if desc.startswith('clause:'):
            nm, cls = desc[7:], 'clause'
        ob = {'id': x['property'], 'name': nm or desc[:100], 'class': cls, 'status': x['status'],
              'file': f, 'line': loc.get('line'), 'function': loc.get('function')}
        if x['status'] == 'FAILURE' and FILTER_STRICT.search(desc):
            r.filtered += 1
            continue
        if x['status'] == 'FAILURE':
            ob['trace'] = x.get('trace')
        r.obligations.append(ob)
    for c in job.canaries:
        st = canary_seen.get(c)
        if st == 'FAILURE':
            r.canary_ok.append(c)
        else:
            r.canary_dead.append('%s(%s)' % (c, st))
    unknown = [o for o in r.obligations if o['status'] not in ('SUCCESS', 'FAILURE')]
    r.failures = [o for o in r.obligations if o['status'] == 'FAILURE']
    uw = [o for o in r.failures if o['name'].startswith('unwinding assertion') or o['class'] == 'unwind']
    if uw:
        # an unwinding assertion that fails means the bound handed to cbmc is too small: not a violation
        raise Infra('unwind bound %d too small: %s in %s line %s' % (job.unwind, uw[0]['name'], uw[0].get('function'), uw[0].get('line')))
    if not r.obligations:
        raise Infra('zero obligations generated')
    if job.plain and not any(o['class'] == 'clause' for o in r.obligations):
        raise Infra('no clause obligation generated by plain harness')
    if job.enforce and not any(o['class'] == 'postcondition' for o in r.obligations):
        raise Infra('no postcondition obligation generated for %s (contract not attached?)' % job.enforce)
    if unknown and not r.failures:
        raise Infra('%d obligations UNKNOWN/ERROR: %s' % (len(unknown), unknown[0]['id']))
    if r.canary_dead and not r.failures:
        raise Infra('vacuity: canaries not reachable: ' + ','.join(r.canary_dead))
    r.status = 'fail' if r.failures else 'ok'


def write_loop_contracts(ws, job, gb, base):
    """job.loops: list of dicts {function, anchor (regex on the loop header's source line), invariants,
    assigns, decreases, symbol_map}.  The loop is located by its source anchor against
    goto-instrument --show-loops on every run, never by a hard-coded ordinal."""
    rc, so, se, _ = sh(['goto-instrument', '--show-loops', '--json-ui', gb], 300)
    try:
        out = json.loads(so)
    except Exception:
        raise Infra('show-loops failed: ' + (so + se)[-300:])
    loops = []
    for o in out:
        if isinstance(o, dict) and 'loops' in o:
            loops = o['loops']
    fns = {}
    files = set()
    for spec in job.loops:
        fn = mangle(spec['function']).split('/')[0]
        cands = []
        for l in loops:
            loc = l.get('sourceLocation', {})
            if loc.get('function') != fn and not l.get('name', '').startswith(fn + '.'):
                continue
            f = loc.get('file', '')
            if not os.path.isabs(f):
                f = os.path.join(loc.get('workingDirectory', ''), f)
            try:
                line = open(f, errors='replace').read().split('\n')[int(loc.get('line', 0)) - 1]
            except Exception:
                line = ''
            if re.search(spec['anchor'], line):
                cands.append((l['name'], f))
        if len(cands) != 1:
            raise Infra('loop anchor %r in %s matched %d loops' % (spec['anchor'], fn, len(cands)))
        name, f = cands[0]
        files.add(f)
        ent = {'loop_id': name.split('.')[-1], 'invariants': spec['invariants']}
        for k in ('assigns', 'decreases', 'symbol_map'):
            if spec.get(k):
                ent[k] = spec[k]
        fns.setdefault(fn, []).append(ent)
    cfg = {'sources': sorted(files), 'functions': [{k: v} for k, v in fns.items()]}
    lf = base + '_loops.json'
    json.dump(cfg, open(lf, 'w'), indent=1)
    return lf


def _cbmc(cmd, job, r):
    rc, so, se, dt = sh(cmd, job.timeout, mem_gb=job.mem_gb)
    r.secs['cbmc'] = round(r.secs.get('cbmc', 0) + dt, 2)
    if rc == -9:
        raise Infra('cbmc timeout after %ss' % job.timeout)
    try:
        out = json.loads(so)
    except Exception:
        raise Infra('cbmc output not JSON (rc=%s, oom?): %s' % (rc, (so[-600:] + se[-600:])))
    results = None
    msgs = []
    for o in out:
        if 'result' in o:
            results = o['result']
        if o.get('messageType') == 'ERROR':
            msgs.append(o.get('messageText', ''))
    if results is None:
        raise Infra('cbmc gave no result list: ' + ' | '.join(msgs)[-800:])
    return results, out


def trace_inputs(trace):
    """Read harness inputs (variables named IN_*) off a cbmc JSON trace."""
    vals = {}
    for st in trace or []:
        if st.get('stepType') != 'assignment':
            continue
        lhs = st.get('lhs', '')
        if not lhs.startswith('IN_'):
            continue
        v = st.get('value', {})
        ent = {'type': v.get('type'), 'data': v.get('data'), 'binary': v.get('binary'), 'width': v.get('width')}
        if v.get('name') == 'array' or 'elements' in v:
            ent['elements'] = [(e.get('value') or {}).get('data') for e in v.get('elements', [])]
        vals[lhs] = ent
    return vals


def run_jobs(ws, jobs, progress=True):
    res = []
    def one(j):
        t = time.time()
        r = run_job(ws, j)
        r.secs['total'] = round(time.time() - t, 2)
        if progress:
            sys.stderr.write('  [%s] %-70s %6.1fs %s\n' % (r.status, j.name, r.secs['total'],
                                                      (r.msg[:200] if r.status == 'infra' else
                                                       ('%d obl' % len(r.obligations)) + (' FAIL:' + ','.join(o['name'] for o in r.failures[:4]) if r.failures else ''))))
        return r
    with ThreadPoolExecutor(max_workers=NCORES) as ex:
        res = list(ex.map(one, jobs))
    return res
