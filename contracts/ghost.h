/* ghost state of the MPI model as frame targets, and fault-injection set-up */
#ifndef GHOST_H
#define GHOST_H
#include "mpi_model.h"
#include "vh.h"
#define GH_TYPES g_type_live, g_type_next, __CPROVER_object_whole(g_tsize)
#define GH_LIVE g_comm_live, g_info_live, g_file_live
#define GH_COLL g_coll_n, __CPROVER_object_whole(g_coll_kind)
#define GH_IO g_io_n, __CPROVER_object_whole(g_io_kind), __CPROVER_object_whole(g_io_off), __CPROVER_object_whole(g_io_count), \
    __CPROVER_object_whole(g_io_buf), __CPROVER_object_whole(g_io_type), __CPROVER_object_whole(g_io_bytes), g_nwrites, g_io_failed, \
    g_last_io_bytes, g_last_got
#define GH_VIEW g_view_n
#define GHOST_ASSIGNS GH_TYPES, GH_LIVE, GH_COLL, GH_IO, GH_VIEW
/* frame facts a replaced contract has to restate for the ghost groups it lists but does not change */
#define GH_TYPES_SAME (g_type_live == __CPROVER_old(g_type_live))
#define GH_COLL_SAME (g_coll_n == __CPROVER_old(g_coll_n))
#define GH_IO_SAME (g_io_n == __CPROVER_old(g_io_n) && g_nwrites == __CPROVER_old(g_nwrites) && g_io_failed == __CPROVER_old(g_io_failed))

/* harness side: arbitrary process position, one injected failure at an arbitrary data-transfer
 * call with an arbitrary non-success code and an arbitrary class out of the modelled list */
static inline void ghost_setup(int inject)
{
    g_nprocs = nondet_int(); g_rank = nondet_int();
    __CPROVER_assume(g_nprocs >= 1 && g_nprocs <= 1024 && g_rank >= 0 && g_rank < g_nprocs);
    g_coll_n = 0; g_io_n = 0; g_nwrites = 0; g_io_failed = 0; g_view_n = 0;
    g_type_live = g_comm_live = g_info_live = g_file_live = 0; g_type_next = 0;
    g_file_mode = 0; g_file_len = 0; g_full_reads = 0; g_last_got = -1; g_last_io_bytes = 0;
    g_fail_at = -1; g_view_fail_at = -1; g_sync_fail = 0; g_get_count = -1;
    for (int i = 0; i < G_COLL_MAX; i++) g_agreed_ll[i] = nondet_ll();
    if (inject) {
        g_fail_at = nondet_int(); __CPROVER_assume(g_fail_at >= -1 && g_fail_at < G_IO_MAX);
        g_fail_code = nondet_int(); __CPROVER_assume(g_fail_code != MPI_SUCCESS);
        int c = nondet_int();
        __CPROVER_assume(c == MPI_ERR_IO || c == MPI_ERR_NO_SPACE || c == MPI_ERR_QUOTA || c == MPI_ERR_ACCESS ||
                         c == MPI_ERR_READ_ONLY || c == MPI_ERR_BAD_FILE || c == MPI_ERR_NO_SUCH_FILE ||
                         c == MPI_ERR_FILE_EXISTS || c == MPI_ERR_AMODE || c == MPI_ERR_NOT_SAME || c == MPI_ERR_OTHER);
        g_fail_class = c;
    }
}
#endif
