/* Contracts of src/drivers/ncmpio/ncmpio_sync.c functions, shared by the harnesses that enforce
 * them and by the callers' harnesses that use them with --replace-call-with-contract. */
#ifndef SYNC_CONTRACTS_H
#define SYNC_CONTRACTS_H
#include "ghost.h"
#include "conv_spec.h"
#define WN_WRITER(ncp) (!((ncp)->rank > 0) && (ncp)->vars.num_rec_vars > 0)
#define LLMAX(a, b) ((a) > (b) ? (a) : (b))
#define WF_NC_BASIC(ncp) ((ncp)->rank == g_rank && (ncp)->nprocs == g_nprocs && (ncp)->numrecs >= 0 && (ncp)->vars.num_rec_vars >= 0 && \
    ((ncp)->format == 1 || (ncp)->format == 2 || (ncp)->format == 5) && (ncp)->put_size >= 0 && (ncp)->put_size < ((long long)1 << 62) && \
    (ncp)->get_size >= 0 && (ncp)->get_size < ((long long)1 << 62))
#define WF_NC_STATS_LOW(ncp) ((ncp)->put_size < ((long long)1 << 61) && (ncp)->get_size < ((long long)1 << 61))

int ncmpio_write_numrecs(NC *ncp, MPI_Offset new_numrecs)
__CPROVER_requires(__CPROVER_is_fresh(ncp, sizeof(NC)))
__CPROVER_requires(WF_NC_BASIC(ncp) && new_numrecs >= 0)
__CPROVER_requires(g_io_n >= 0 && g_io_n < G_IO_MAX - 1 && g_coll_n >= 0 && g_coll_n < G_COLL_MAX - 1 && g_nwrites >= 0 && g_nwrites < 1000)
#ifdef ENFORCE_ncmpio_write_numrecs
__CPROVER_requires(ncp->flags == IN_flags && ncp->format == IN_format && ncp->rank == IN_rank && ncp->nprocs == IN_nprocs &&
                   ncp->vars.num_rec_vars == IN_num_rec_vars && ncp->numrecs == IN_numrecs && new_numrecs == IN_new_numrecs) /* tie */
#endif
__CPROVER_assigns(ncp->numrecs, ncp->put_size, GH_COLL, GH_IO)
__CPROVER_ensures(ncp->put_size >= __CPROVER_old(ncp->put_size) && ncp->put_size <= __CPROVER_old(ncp->put_size) + 8) /*@put_size_counts_bytes*/
/* C11 */
__CPROVER_ensures(IMPLIES(g_io_failed && !__CPROVER_old(g_io_failed), __CPROVER_return_value != NC_NOERR)) /*@C11_io_failure_reported*/
__CPROVER_ensures(IMPLIES(__CPROVER_old(g_io_failed), g_io_failed)) /*@ghost_failure_flag_sticky*/
/* C05 */
__CPROVER_ensures(ncp->numrecs >= __CPROVER_old(ncp->numrecs)) /*@C05_numrecs_never_decreases*/
__CPROVER_ensures(IMPLIES(WN_WRITER(ncp) && __CPROVER_return_value == NC_NOERR, ncp->numrecs == LLMAX(__CPROVER_old(ncp->numrecs), new_numrecs))) /*@C05_root_numrecs_is_max*/
__CPROVER_ensures(IMPLIES(!WN_WRITER(ncp), ncp->numrecs == __CPROVER_old(ncp->numrecs))) /*@C05_nonwriter_unchanged*/
__CPROVER_ensures(IMPLIES(WN_WRITER(ncp) && (new_numrecs > __CPROVER_old(ncp->numrecs) || (ncp->flags & NC_NDIRTY)) &&
                          !(ncp->format < 5 && LLMAX(__CPROVER_old(ncp->numrecs), new_numrecs) > NC_MAX_INT), g_nwrites == __CPROVER_old(g_nwrites) + 1)) /*@C05_header_written_when_grown_or_dirty*/
__CPROVER_ensures(g_nwrites >= __CPROVER_old(g_nwrites) && g_nwrites <= __CPROVER_old(g_nwrites) + 1 && g_io_n >= __CPROVER_old(g_io_n) && g_io_n <= __CPROVER_old(g_io_n) + 1) /*@at_most_one_write*/
/* C03: the field written is numrecs, big-endian, at byte 4, 4 bytes (CDF-1/2) or 8 bytes (CDF-5) */
__CPROVER_ensures(IMPLIES(g_nwrites == __CPROVER_old(g_nwrites) + 1 && g_io_count[__CPROVER_old(g_io_n)] > 0,
      g_io_off[__CPROVER_old(g_io_n)] == 4 && g_io_count[__CPROVER_old(g_io_n)] == (ncp->format == 5 ? 8 : 4) && g_io_type[__CPROVER_old(g_io_n)] == MPI_BYTE &&
      spec_be(g_io_bytes[__CPROVER_old(g_io_n)], ncp->format == 5 ? 8 : 4) == (unsigned long long)ncp->numrecs)) /*@C03_numrecs_field_encoding*/
/* C08: collective calls depend only on rank-invariant state and the role, never on local outcome */
__CPROVER_ensures(IMPLIES(!(ncp->flags & NC_HCOLL) || ncp->vars.num_rec_vars == 0, g_coll_n == __CPROVER_old(g_coll_n))) /*@C08_no_collective_without_HCOLL*/
__CPROVER_ensures(IMPLIES((ncp->flags & NC_HCOLL) && ncp->nprocs > 1 && ncp->vars.num_rec_vars > 0 && ncp->rank > 0, g_coll_n == __CPROVER_old(g_coll_n) + 1)) /*@C08_nonroot_always_participates*/
__CPROVER_ensures(g_coll_n >= __CPROVER_old(g_coll_n) && g_coll_n <= __CPROVER_old(g_coll_n) + 1) /*@at_most_one_collective*/
__CPROVER_ensures(IMPLIES(__CPROVER_old(g_io_n) > 0, g_io_off[0] == __CPROVER_old(g_io_off[0]) && g_io_count[0] == __CPROVER_old(g_io_count[0]) && g_io_kind[0] == __CPROVER_old(g_io_kind[0])) &&
                  IMPLIES(__CPROVER_old(g_io_n) > 1, g_io_off[1] == __CPROVER_old(g_io_off[1]) && g_io_count[1] == __CPROVER_old(g_io_count[1]) && g_io_kind[1] == __CPROVER_old(g_io_kind[1]))) /*@io_trace_append_only*/
/* the trace is append-only: earlier entries are kept (first three stated explicitly) */
__CPROVER_ensures(IMPLIES(__CPROVER_old(g_coll_n) > 0, g_coll_kind[0] == __CPROVER_old(g_coll_kind[0])) && IMPLIES(__CPROVER_old(g_coll_n) > 1, g_coll_kind[1] == __CPROVER_old(g_coll_kind[1])) &&
                  IMPLIES(__CPROVER_old(g_coll_n) > 2, g_coll_kind[2] == __CPROVER_old(g_coll_kind[2]))) /*@collective_trace_append_only*/
;
#endif
