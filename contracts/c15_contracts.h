/* C15: contracts of the two leaf argument checks of src/dispatchers/var_getput.m4, shared between
 * the jobs that enforce them (harness/C15_checks.c) and the job that replaces calls to them
 * (harness/C15_scs.c: check_start_count_stride). */
#ifndef C15_CONTRACTS_H
#define C15_CONTRACTS_H
#include "vh.h"
#include "request_spec.h"
/* the strided edge rule; a job that only *uses* this contract (C15_scs.c) may name the 128-bit product
 * (count-1)*stride through a ghost variable holding exactly that product, so that caller and callee
 * talk about one term instead of two multiplier circuits */
#ifndef SPEC_EDGE_STRIDED
#define SPEC_EDGE_STRIDED(st, ct, sd, sh) spec_edge_ok(st, ct, 1, sd, sh)
#endif
/* ---- check_EINVALCOORDS: all 64-bit inputs ------------------------------- */
int FL(var_getput, check_EINVALCOORDS)(int strict_coord_bound, MPI_Offset start, MPI_Offset count, MPI_Offset shape)
__CPROVER_requires(shape >= 0)
#ifdef ENFORCE_check_EINVALCOORDS
__CPROVER_requires(start == IN_start && count == IN_count && shape == IN_shape && strict_coord_bound == IN_strict) /* tie */
#endif
__CPROVER_assigns()
__CPROVER_ensures(__CPROVER_return_value == NC_NOERR || __CPROVER_return_value == NC_EINVALCOORDS) /*@retcode*/
__CPROVER_ensures(IMPLIES(spec_coord_ok(strict_coord_bound != 0, start, count, shape) == 1, __CPROVER_return_value == NC_NOERR)) /*@valid_coord_accepted*/
__CPROVER_ensures(IMPLIES(spec_coord_ok(strict_coord_bound != 0, start, count, shape) == 0, __CPROVER_return_value == NC_EINVALCOORDS)) /*@invalid_coord_rejected*/
;

/* ---- check_EEDGE ---------------------------------------------------------
 * preconditions from the only call site (check_start_count_stride): the coordinate check has
 * passed (0 <= start <= shape), count >= 0, shape >= 0.  No magnitude restriction: the overflow
 * obligations are on the full 64-bit domain.  The functional clause for the strided form is
 * stated for stride >= 1 (stride <= 0 is NC_ESTRIDE, whose order against NC_EEDGE the documents
 * leave open). */
int FL(var_getput, check_EEDGE)(const MPI_Offset *start, const MPI_Offset *count, const MPI_Offset *stride, const MPI_Offset *shape)
__CPROVER_requires(__CPROVER_is_fresh(start, sizeof(MPI_Offset)) && __CPROVER_is_fresh(count, sizeof(MPI_Offset)) && __CPROVER_is_fresh(shape, sizeof(MPI_Offset)))
__CPROVER_requires(stride == NULL || __CPROVER_is_fresh(stride, sizeof(MPI_Offset)))
__CPROVER_requires(*shape >= 0 && *count >= 0 && 0 <= *start && *start <= *shape)
#ifdef WIDTH_BOUND
__CPROVER_requires(*count < ((long long)1 << WIDTH_BOUND) && (stride == NULL || *stride < ((long long)1 << WIDTH_BOUND)) && *shape < ((long long)1 << (2*WIDTH_BOUND)))
#endif
#ifdef STRIDE_CONST  /* enumerated by the runner; start, count, shape stay full-width symbolic */
__CPROVER_requires(stride != NULL && *stride == STRIDE_CONST)
#endif
#ifdef ENFORCE_check_EEDGE
__CPROVER_requires(*start == IN_start && *count == IN_count && *shape == IN_shape && IN_has_stride == (stride != NULL) && IMPLIES(stride != NULL, *stride == IN_stride)) /* tie */
#endif
__CPROVER_assigns()
__CPROVER_ensures(__CPROVER_return_value == NC_NOERR || __CPROVER_return_value == NC_EEDGE) /*@retcode*/
__CPROVER_ensures(IMPLIES(stride == NULL,
      IFF(__CPROVER_return_value == NC_NOERR, spec_edge_ok(*start, *count, 0, 1, *shape)))) /*@edge_iff_spec_unstrided*/
__CPROVER_ensures(IMPLIES(__CPROVER_return_value == NC_NOERR, (i128)*start + (i128)*count <= (i128)*shape)) /*@accepted_fits_contiguously*/
__CPROVER_ensures(IMPLIES(stride != NULL && (*stride <= 0 || *count == 0),
      IFF(__CPROVER_return_value == NC_NOERR, spec_edge_ok(*start, *count, 0, 1, *shape)))) /*@edge_rule_is_the_contiguous_one_for_a_stride_that_is_not_positive_or_an_empty_count*/
#ifdef CLAUSE_STRIDED  /* nonlinear: decided under operand-width bounds only (DESIGN 1.2) */
__CPROVER_ensures(IMPLIES(stride != NULL && *stride >= 1,
      IFF(__CPROVER_return_value == NC_NOERR, SPEC_EDGE_STRIDED(*start, *count, *stride, *shape)))) /*@edge_iff_spec_strided*/
#endif
;

#endif
