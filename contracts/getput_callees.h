/* Contracts of the callees of put_varm / get_varm (ncmpio_getput.m4).  Clauses state only what the
 * callers' proofs use; each is enforced against the real body in its own job where one exists
 * (the runner lists the ones that are only assumed). */
#ifndef GETPUT_CALLEES_H
#define GETPUT_CALLEES_H
#include "ghost.h"

/* ghost for C13: number of in-place swaps applied to the caller's buffer */
const void *g_user_buf; int g_user_swaps;
extern long long g_decoded_nbytes;   /* ghost: bytes the request decodes to */
extern int g_decoded_contig;         /* ghost: the buffer datatype decodes as contiguous */
#define IS_TYPE_VALUE(t) ((t) == MPI_BYTE || (t) == MPI_CHAR || (t) == MPI_SIGNED_CHAR || (t) == MPI_UNSIGNED_CHAR || (t) == MPI_SHORT || \
    (t) == MPI_UNSIGNED_SHORT || (t) == MPI_INT || (t) == MPI_UNSIGNED || (t) == MPI_FLOAT || (t) == MPI_DOUBLE || (t) == MPI_LONG_LONG_INT || \
    (t) == MPI_UNSIGNED_LONG_LONG || (t) == MPI_LONG)

int ncmpii_buftype_decode(int ndims, nc_type xtype, const MPI_Offset *count, MPI_Offset bufcount, MPI_Datatype buftype,
                          MPI_Datatype *etype, int *esize, MPI_Offset *nelems, MPI_Offset *xnbytes, int *isContig)
__CPROVER_requires(__CPROVER_is_fresh(etype, sizeof(*etype)) && __CPROVER_is_fresh(esize, sizeof(int)) && __CPROVER_is_fresh(nelems, sizeof(MPI_Offset)) &&
                   __CPROVER_is_fresh(xnbytes, sizeof(MPI_Offset)) && __CPROVER_is_fresh(isContig, sizeof(int)))
__CPROVER_assigns(*etype, *esize, *nelems, *xnbytes, *isContig, g_decoded_nbytes, g_decoded_contig)
__CPROVER_ensures(IMPLIES(__CPROVER_return_value == NC_NOERR, IS_TYPE_VALUE(*etype) && *esize >= 1 && *esize <= 8 && *nelems >= 0 && *xnbytes >= 0 &&
                  (*xnbytes == 0) == (*nelems == 0) && *xnbytes < ((long long)1 << 40) && (*isContig == 0 || *isContig == 1)))
__CPROVER_ensures(__CPROVER_return_value != NC_ERANGE)
__CPROVER_ensures(g_decoded_nbytes == ((__CPROVER_return_value == NC_NOERR) ? *xnbytes : 0) && g_decoded_contig == ((__CPROVER_return_value == NC_NOERR) ? *isContig : 0))
;
int ncmpii_need_convert(int format, nc_type xtype, MPI_Datatype itype)
__CPROVER_assigns()
__CPROVER_ensures(__CPROVER_return_value == 0 || __CPROVER_return_value == 1)
;
int ncmpii_create_imaptype(int ndims, const MPI_Offset *count, const MPI_Offset *imap, MPI_Datatype itype, MPI_Datatype *imaptype)
__CPROVER_requires(__CPROVER_is_fresh(imaptype, sizeof(*imaptype)))
__CPROVER_requires(g_type_live >= 0 && g_type_live < 1000)
__CPROVER_assigns(*imaptype, GH_TYPES)
__CPROVER_ensures(IMPLIES(__CPROVER_return_value == NC_NOERR, (*imaptype == MPI_DATATYPE_NULL && GH_TYPES_SAME) || (VT_IS_DERIVED(*imaptype) && g_type_live == __CPROVER_old(g_type_live) + 1)))
__CPROVER_ensures(IMPLIES(__CPROVER_return_value != NC_NOERR, GH_TYPES_SAME))
__CPROVER_ensures(IMPLIES(imap == NULL && __CPROVER_return_value == NC_NOERR, *imaptype == MPI_DATATYPE_NULL))
__CPROVER_ensures(__CPROVER_return_value != NC_ERANGE)
;
void ncmpii_in_swapn(void *buf, MPI_Offset nelems, int esize)
__CPROVER_assigns(__CPROVER_object_whole(buf), g_user_swaps)
__CPROVER_ensures(g_user_swaps == __CPROVER_old(g_user_swaps) + ((buf == g_user_buf && esize > 1 && nelems > 0) ? 1 : 0))
;
int ncmpio_pack_xbuf(int fmt, NC_var *varp, MPI_Offset bufcount, MPI_Datatype buftype, int buftype_is_contig, MPI_Offset nelems,
                     MPI_Datatype itype, int el_size, MPI_Datatype imaptype, int need_convert, int need_swap, size_t xbuf_size, void *buf, void *xbuf)
__CPROVER_requires(xbuf != NULL && xbuf != buf)
__CPROVER_assigns(__CPROVER_object_whole(xbuf), GH_TYPES)
/* a true-varm imaptype is consumed (freed) when packing succeeds */
__CPROVER_ensures(IMPLIES(__CPROVER_return_value == NC_NOERR || __CPROVER_return_value == NC_ERANGE, g_type_live == __CPROVER_old(g_type_live) - ((imaptype != MPI_DATATYPE_NULL) ? 1 : 0)))
__CPROVER_ensures(g_type_live <= __CPROVER_old(g_type_live) && g_type_live >= __CPROVER_old(g_type_live) - 1)
;
MPI_Datatype ncmpii_nc2mpitype(nc_type xtype)
__CPROVER_assigns()
__CPROVER_ensures(IS_TYPE_VALUE(__CPROVER_return_value) || __CPROVER_return_value == MPI_DATATYPE_NULL)
;
int ncmpio_filetype_create_vars(const NC *ncp, const NC_var *varp, const MPI_Offset *start, const MPI_Offset *count, const MPI_Offset *stride,
                                MPI_Offset *offset_ptr, MPI_Datatype *filetype_ptr, int *is_filetype_contig)
__CPROVER_requires(__CPROVER_is_fresh(offset_ptr, sizeof(MPI_Offset)) && __CPROVER_is_fresh(filetype_ptr, sizeof(MPI_Datatype)))
__CPROVER_requires(g_type_live >= 0 && g_type_live < 1000)
__CPROVER_assigns(*offset_ptr, *filetype_ptr, GH_TYPES)
__CPROVER_ensures(IMPLIES(__CPROVER_return_value == NC_NOERR, (*filetype_ptr == MPI_BYTE && g_type_live == __CPROVER_old(g_type_live)) ||
                          (VT_IS_DERIVED(*filetype_ptr) && g_type_live == __CPROVER_old(g_type_live) + 1)))
__CPROVER_ensures(IMPLIES(__CPROVER_return_value != NC_NOERR, *filetype_ptr == MPI_BYTE && g_type_live == __CPROVER_old(g_type_live)))
__CPROVER_ensures(__CPROVER_return_value != NC_ERANGE)
;
/* one collective (MPI_File_set_view) on every path, whatever the outcome */
int ncmpio_file_set_view(const NC *ncp, MPI_File fh, MPI_Offset *offset, MPI_Datatype filetype)
__CPROVER_requires(__CPROVER_is_fresh(offset, sizeof(MPI_Offset)) && g_coll_n >= 0 && g_coll_n < G_COLL_MAX - 1)
__CPROVER_assigns(*offset, GH_COLL, GH_VIEW, GH_TYPES)
__CPROVER_ensures(g_coll_n == __CPROVER_old(g_coll_n) + 1 && g_coll_kind[__CPROVER_old(g_coll_n)] == COLL_FILE_SET_VIEW && GH_TYPES_SAME)
__CPROVER_ensures(IMPLIES(__CPROVER_old(g_coll_n) > 0, g_coll_kind[0] == __CPROVER_old(g_coll_kind[0])) && IMPLIES(__CPROVER_old(g_coll_n) > 1, g_coll_kind[1] == __CPROVER_old(g_coll_kind[1])))
__CPROVER_ensures(__CPROVER_return_value != NC_ERANGE)
;
/* data transfer: one MPI-IO call in collective mode always; an injected failure is reported */
int ncmpio_read_write(NC *ncp, int rw_flag, int coll_indep, MPI_Offset offset, MPI_Offset buf_count, MPI_Datatype buf_type, void *buf, int buftype_is_contig)
__CPROVER_requires(g_coll_n >= 0 && g_coll_n < G_COLL_MAX - 1 && g_io_n >= 0 && g_io_n < G_IO_MAX - 1)
__CPROVER_requires(ncp->put_size >= 0 && ncp->get_size >= 0 && WF_NC_STATS_LOW(ncp) && g_nwrites >= 0 && g_nwrites < 1000)
__CPROVER_assigns(ncp->put_size, ncp->get_size, GH_COLL, GH_IO, GH_TYPES)
__CPROVER_assigns(buf != NULL && rw_flag == NC_REQ_RD: __CPROVER_object_whole(buf))
/* the transfer call carries data exactly when the request does */
__CPROVER_ensures(IMPLIES(buf_count > 0 && __CPROVER_return_value == NC_NOERR, g_io_n == __CPROVER_old(g_io_n) + 1 && g_io_count[__CPROVER_old(g_io_n)] > 0)) /*@nonempty_request_transfers_data*/
__CPROVER_ensures(IMPLIES(buf_count <= 0 && g_io_n > __CPROVER_old(g_io_n), g_io_count[__CPROVER_old(g_io_n)] == 0)) /*@empty_request_transfers_nothing*/
__CPROVER_ensures(GH_TYPES_SAME) /*@C17_datatypes_balanced*/
__CPROVER_ensures(ncp->put_size >= __CPROVER_old(ncp->put_size) && ncp->put_size <= __CPROVER_old(ncp->put_size) + ((long long)1 << 41) &&
                  ncp->get_size >= __CPROVER_old(ncp->get_size) && ncp->get_size <= __CPROVER_old(ncp->get_size) + ((long long)1 << 41))
__CPROVER_ensures(g_io_n >= __CPROVER_old(g_io_n) && g_io_n <= __CPROVER_old(g_io_n) + 1 && g_nwrites >= __CPROVER_old(g_nwrites) && g_nwrites <= __CPROVER_old(g_nwrites) + 1)
__CPROVER_ensures(IMPLIES(__CPROVER_old(g_coll_n) > 0, g_coll_kind[0] == __CPROVER_old(g_coll_kind[0])) && IMPLIES(__CPROVER_old(g_coll_n) > 1, g_coll_kind[1] == __CPROVER_old(g_coll_kind[1])))
__CPROVER_ensures(IMPLIES(g_io_failed && !__CPROVER_old(g_io_failed), __CPROVER_return_value != NC_NOERR && __CPROVER_return_value != NC_ERANGE)) /*@C11_io_failure_reported*/
__CPROVER_ensures(IMPLIES(__CPROVER_old(g_io_failed), g_io_failed))
__CPROVER_ensures(g_coll_n == __CPROVER_old(g_coll_n) + ((coll_indep == NC_REQ_COLL && ncp->nprocs > 1) ? 1 : 0)) /*@C08_one_collective_transfer_in_collective_mode*/
__CPROVER_ensures(__CPROVER_return_value != NC_ERANGE)
;
#endif
