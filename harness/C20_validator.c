/* C20: the validator's own size-rule check (val_NC_check_vlens, static in
 * src/utils/ncvalidator/ncvalidator.c) accepts exactly the variable-size configurations the format
 * allows - the same rule (spec_vlens_ok) the library's ncmpio_NC_check_vlens is enforced against in
 * C18, hence the validator accepts what the library accepts and writes.
 * Types come from valhead.h, which the runner extracts mechanically from ncvalidator.c on every
 * run (everything up to and including the bufferinfo typedef: includes, macros, struct typedefs). */
#include <config.h>
#include "valhead.h"
#include "vh.h"
#ifndef NVARS
#define NVARS 3
#endif
#define VV(sym) FL(ncvalidator, sym)
_Bool g_fits[8]; int IN_format; _Bool IN_isrec[8], IN_fits[8]; int g_leaf_idx_of_name;
#define NC_EVARSIZE_V (-62)
#define NC_NOERR_V 0

static inline int spec_vlens_ok(int format, int n, const _Bool *isrec, const _Bool *fits)
{
    int nfix_big = 0, nrec_big = 0, nrec = 0, last_fix = -1, last_rec = -1, big_fix = -1, big_rec = -1;
    for (int i = 0; i < 8; i++) if (i < n) {
        if (isrec[i]) { nrec++; last_rec = i; if (!fits[i]) { nrec_big++; big_rec = i; } }
        else { last_fix = i; if (!fits[i]) { nfix_big++; big_fix = i; } }
    }
    if (format >= 5) return nfix_big == 0 && nrec_big == 0;
    if (nfix_big > 1 || nrec_big > 1) return 0;
    if (nfix_big == 1 && (big_fix != last_fix || nrec > 0)) return 0;
    if (nrec_big == 1 && big_rec != last_rec) return 0;
    return 1;
}
static inline long long spec_limit(int format)
{ return format >= 5 ? 9223372036854775804LL : format == 2 ? 4294967292LL : 2147483644LL; }

/* leaf by contract: "fits" is a ghost boolean per variable (the variable is identified by its xsz
 * field, which the harness sets to 1 + index) */
int VV(NC_check_vlen)(NC_var *varp, long long vlen_max)
__CPROVER_requires(varp != NULL && varp->xsz >= 1 && varp->xsz <= NVARS)
__CPROVER_requires(vlen_max == spec_limit(IN_format))
__CPROVER_assigns()
__CPROVER_ensures(__CPROVER_return_value == (g_fits[varp->xsz - 1] ? 1 : 0))
;
int VV(val_NC_check_vlens)(NC *ncp)
__CPROVER_requires(ncp != NULL && ncp->vars.ndefined == NVARS && ncp->format == IN_format && (IN_format == 1 || IN_format == 2 || IN_format == 5))
__CPROVER_assigns()
__CPROVER_ensures(IFF(__CPROVER_return_value == NC_NOERR_V, spec_vlens_ok(IN_format, NVARS, IN_isrec, IN_fits))) /*@validator_accepts_iff_format_size_rules_hold*/
__CPROVER_ensures(__CPROVER_return_value == NC_NOERR_V || __CPROVER_return_value == NC_EVARSIZE_V) /*@retcode*/
;

static NC nc; static NC_var vars[NVARS]; static NC_var *vp[NVARS]; static long long shp[NVARS][2]; static char nm[] = "v";
void harness(void)
{
    IN_format = nondet_int(); __CPROVER_assume(IN_format == 1 || IN_format == 2 || IN_format == 5);
    for (int i = 0; i < NVARS; i++) {
        IN_isrec[i] = nondet_bool(); IN_fits[i] = nondet_bool(); g_fits[i] = IN_fits[i];
        vars[i].xsz = i + 1; vars[i].ndims = 2; vars[i].name = nm; vars[i].name_len = 1;
        shp[i][0] = IN_isrec[i] ? 0 /* NC_UNLIMITED */ : 7; shp[i][1] = 5; vars[i].shape = shp[i]; vp[i] = &vars[i];
    }
    nc.format = IN_format; nc.vars.ndefined = NVARS; nc.vars.value = vp;
    int r = VV(val_NC_check_vlens)(&nc);
    CANARY(r == NC_NOERR_V, "accepted"); CANARY(r != NC_NOERR_V, "rejected");
#if NVARS >= 2
    CANARY(r == NC_NOERR_V && !IN_fits[NVARS - 1], "oversize_last_accepted");
#endif
}
