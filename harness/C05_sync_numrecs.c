/* ncmpio_sync_numrecs (src/drivers/ncmpio/ncmpio_sync.c) under contract; ncmpio_write_numrecs is
 * replaced by its contract (sync_contracts.h).  C05 (all ranks end with the agreed maximum),
 * C14 (mode errors leave everything unchanged), C11, C08. */
#include <config.h>
#include <pnetcdf.h>
#include <dispatch.h>
#include <ncmpio_NC.h>
#include "ghost.h"
int IN_flags, IN_format, IN_rank, IN_nprocs, IN_num_rec_vars, IN_safe_mode; long long IN_numrecs, IN_new_numrecs;
#include "sync_contracts.h"

#define SN_ACTIVE(flags, nrec) (!((flags) & NC_MODE_DEF) && (nrec) > 0 && !((flags) & NC_MODE_RDONLY) && ((flags) & NC_MODE_INDEP))

int ncmpio_sync_numrecs(void *ncdp)
__CPROVER_requires(__CPROVER_is_fresh(ncdp, sizeof(NC)))
__CPROVER_requires(WF_NC_BASIC((NC*)ncdp) && (((NC*)ncdp)->safe_mode == 0 || ((NC*)ncdp)->safe_mode == 1))
__CPROVER_requires(g_io_n == 0 && g_coll_n == 0 && g_nwrites == 0 && g_io_failed == 0)
#ifdef ENFORCE_ncmpio_sync_numrecs
__CPROVER_requires(((NC*)ncdp)->flags == IN_flags && ((NC*)ncdp)->format == IN_format && ((NC*)ncdp)->rank == IN_rank && ((NC*)ncdp)->nprocs == IN_nprocs &&
                   ((NC*)ncdp)->vars.num_rec_vars == IN_num_rec_vars && ((NC*)ncdp)->numrecs == IN_numrecs && ((NC*)ncdp)->safe_mode == IN_safe_mode) /* tie */
#endif
__CPROVER_assigns(((NC*)ncdp)->numrecs, ((NC*)ncdp)->put_size, ((NC*)ncdp)->flags, GHOST_ASSIGNS)
/* C14: documented errors, no effect */
__CPROVER_ensures(IMPLIES(__CPROVER_old(((NC*)ncdp)->flags) & NC_MODE_DEF, __CPROVER_return_value == NC_EINDEFINE)) /*@C14_define_mode_EINDEFINE*/
__CPROVER_ensures(IMPLIES(!(__CPROVER_old(((NC*)ncdp)->flags) & NC_MODE_DEF) && ((NC*)ncdp)->vars.num_rec_vars > 0 && (__CPROVER_old(((NC*)ncdp)->flags) & NC_MODE_RDONLY), __CPROVER_return_value == NC_EPERM)) /*@C14_readonly_EPERM*/
__CPROVER_ensures(IMPLIES(!SN_ACTIVE(__CPROVER_old(((NC*)ncdp)->flags), ((NC*)ncdp)->vars.num_rec_vars),
      ((NC*)ncdp)->numrecs == __CPROVER_old(((NC*)ncdp)->numrecs) && ((NC*)ncdp)->flags == __CPROVER_old(((NC*)ncdp)->flags) && g_coll_n == 0 && g_io_n == 0)) /*@C14_rejected_or_noop_has_no_effect*/
/* C05 */
__CPROVER_ensures(((NC*)ncdp)->numrecs >= __CPROVER_old(((NC*)ncdp)->numrecs)) /*@C05_numrecs_never_decreases*/
__CPROVER_ensures(IMPLIES(SN_ACTIVE(__CPROVER_old(((NC*)ncdp)->flags), ((NC*)ncdp)->vars.num_rec_vars) && __CPROVER_return_value == NC_NOERR,
      ((NC*)ncdp)->numrecs == (g_nprocs > 1 ? g_agreed_ll[0] : __CPROVER_old(((NC*)ncdp)->numrecs)))) /*@C05_every_rank_ends_with_agreed_maximum*/
__CPROVER_ensures(IMPLIES(SN_ACTIVE(__CPROVER_old(((NC*)ncdp)->flags), ((NC*)ncdp)->vars.num_rec_vars) && __CPROVER_return_value == NC_NOERR, !(((NC*)ncdp)->flags & NC_NDIRTY))) /*@C05_dirty_flag_cleared*/
__CPROVER_ensures(IMPLIES(SN_ACTIVE(__CPROVER_old(((NC*)ncdp)->flags), ((NC*)ncdp)->vars.num_rec_vars) && g_rank == 0 && __CPROVER_return_value == NC_NOERR &&
      !(((NC*)ncdp)->format < 5 && ((NC*)ncdp)->numrecs > NC_MAX_INT), g_nwrites == 1)) /*@C05_root_writes_header*/
/* C11 */
__CPROVER_ensures(IMPLIES(g_io_failed, __CPROVER_return_value != NC_NOERR)) /*@C11_io_failure_reported*/
/* C08: exactly one Allreduce when active and nprocs > 1, whatever the local state */
__CPROVER_ensures(IMPLIES(SN_ACTIVE(__CPROVER_old(((NC*)ncdp)->flags), ((NC*)ncdp)->vars.num_rec_vars) && g_nprocs > 1, g_coll_n >= 1 && g_coll_kind[0] == COLL_ALLREDUCE)) /*@C08_allreduce_first*/
;

void harness(void)
{
    ghost_setup(1);
    IN_flags = nondet_int(); IN_format = nondet_int(); IN_rank = nondet_int(); IN_nprocs = nondet_int();
    IN_num_rec_vars = nondet_int(); IN_numrecs = nondet_ll(); IN_safe_mode = nondet_int();
    void *ncp;
    int r = ncmpio_sync_numrecs(ncp);
    CANARY(r == NC_NOERR && g_coll_n > 0, "synced_multi");
    CANARY(r == NC_NOERR && g_nwrites == 1, "wrote");
    CANARY(r == NC_EINDEFINE, "eindefine"); CANARY(r == NC_EPERM, "eperm");
    CANARY(r != NC_NOERR && g_io_failed, "failure_reported");
}
