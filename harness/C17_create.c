/* C17: ncmpi_create (src/dispatchers/file.c, #included) - "the library holds no heap memory and no MPI
 * communicators, info objects ... of its own, whatever mixture of successful and failing calls
 * preceded": a create that fails, for whatever reason and at whatever stage, keeps nothing - no file
 * id, no PNC object, no duplicated communicator, no info object; a create that succeeds keeps exactly
 * one id, one object, its path and (for a user communicator) one duplicate.
 * Allocation is counted by substituting the NCI_Malloc / NCI_Free macros of common.h for counting
 * wrappers (front-end substitution confined to this TU); MPI and the driver are harness stubs that
 * count and may fail; the id table functions are replaced by (summary) contracts - their own
 * contracts are enforced in C17_idtable.c. */
#include <config.h>
#include <stdlib.h>
#include <string.h>
#include <pnetcdf.h>
#include <dispatch.h>
#include <common.h>
#include "vh.h"
int g_heap_live, g_comm_live, g_info_live, g_ids_live, g_driver_files;
int IN_cmode, IN_nprocs; _Bool IN_user_comm, IN_fail_dup, IN_fail_id, IN_hints; int IN_create_ret;
static void *verif_malloc(size_t n) { g_heap_live++; return malloc(n); }
static void verif_free(void *p) { if (p != NULL) g_heap_live--; free(p); }
#undef NCI_Malloc
#undef NCI_Free
#define NCI_Malloc(a) verif_malloc(a)
#define NCI_Free(a) verif_free(a)
#undef FL
#define FL(file, sym) sym
char *getenv(const char *name) { return NULL; }   /* instance: no PNETCDF_* environment variables */
int MPI_Comm_rank(MPI_Comm comm, int *rank) { *rank = 0; return MPI_SUCCESS; }
int MPI_Comm_size(MPI_Comm comm, int *size) { *size = IN_nprocs; return MPI_SUCCESS; }
int MPI_Bcast(void *buffer, int count, MPI_Datatype datatype, int root, MPI_Comm comm) { return MPI_SUCCESS; }
int MPI_Allreduce(const void *s, void *r, int count, MPI_Datatype t, MPI_Op op, MPI_Comm comm) { *(int *)r = *(const int *)s; return MPI_SUCCESS; }
int MPI_Comm_dup(MPI_Comm comm, MPI_Comm *newcomm) { if (IN_fail_dup) return MPI_ERR_OTHER; *newcomm = (MPI_Comm)malloc(1); g_comm_live++; return MPI_SUCCESS; }
int MPI_Comm_free(MPI_Comm *comm) { g_comm_live--; free(*comm); *comm = MPI_COMM_NULL; return MPI_SUCCESS; }
int MPI_Info_create(MPI_Info *info) { *info = (MPI_Info)malloc(1); g_info_live++; return MPI_SUCCESS; }
int MPI_Info_free(MPI_Info *info) { g_info_live--; free(*info); *info = MPI_INFO_NULL; return MPI_SUCCESS; }
int MPI_Error_class(int errorcode, int *errorclass) { *errorclass = MPI_ERR_OTHER; return MPI_SUCCESS; }
int MPI_Error_string(int errorcode, char *string, int *resultlen) { string[0] = 0; *resultlen = 0; return MPI_SUCCESS; }
int ncmpii_error_mpi2nc(int mpi_errorcode, char *msg) { return NC_EFILE; }
static int stub_create(MPI_Comm comm, const char *path, int cmode, int ncid, MPI_Info info, void **ncpp)
{ if (IN_create_ret == NC_NOERR || IN_create_ret == NC_EMULTIDEFINE_CMODE) { *ncpp = (void *)&g_driver_files; g_driver_files++; } return IN_create_ret; }
static int stub_close(void *ncp) { g_driver_files--; return NC_NOERR; }
static PNC_driver drv;
PNC_driver *ncmpio_inq_driver(void) { drv.create = stub_create; drv.close = stub_close; return &drv; }

/* summary contracts of the id table (enforced with the real 1024-slot table in C17_idtable.c) */
static int new_id_PNCList(int *new_id, PNC *pncp)
__CPROVER_assigns(*new_id, g_ids_live)
__CPROVER_ensures(IN_fail_id ? (__CPROVER_return_value == NC_ENFILE && *new_id == -1 && g_ids_live == __CPROVER_old(g_ids_live))
                             : (__CPROVER_return_value == NC_NOERR && *new_id >= 0 && *new_id < NC_MAX_NFILES && g_ids_live == __CPROVER_old(g_ids_live) + 1))
;
static int del_from_PNCList(int ncid)
__CPROVER_requires(ncid >= 0 && ncid < NC_MAX_NFILES)
__CPROVER_assigns(g_ids_live)
__CPROVER_ensures(g_ids_live == __CPROVER_old(g_ids_live) - 1 && __CPROVER_return_value == NC_NOERR)
;
/* the hint combiner: hands back MPI_INFO_NULL or one new info object */
static void combine_env_hints(MPI_Info user_info, MPI_Info *new_info)
__CPROVER_assigns(*new_info, g_info_live)
__CPROVER_ensures(IN_hints ==> (__CPROVER_is_fresh(*new_info, 1) && g_info_live == __CPROVER_old(g_info_live) + 1))
__CPROVER_ensures(!IN_hints ==> (*new_info == MPI_INFO_NULL && g_info_live == __CPROVER_old(g_info_live)))
;
#define KEPT (__CPROVER_return_value == NC_NOERR || __CPROVER_return_value == NC_EMULTIDEFINE_CMODE)

int ncmpi_create(MPI_Comm comm, const char *path, int cmode, MPI_Info info, int *ncidp)
__CPROVER_requires(cmode == IN_cmode && g_heap_live == 0 && g_comm_live == 0 && g_info_live == 0 && g_ids_live == 0 && g_driver_files == 0 && (comm == MPI_COMM_WORLD) == !IN_user_comm && comm != MPI_COMM_SELF)
__CPROVER_assigns(*ncidp, g_heap_live, g_comm_live, g_info_live, g_ids_live, g_driver_files, drv)
__CPROVER_ensures(g_info_live == 0) /*@C17_no_info_object_kept*/
__CPROVER_ensures(IMPLIES(!KEPT, g_heap_live == 0)) /*@C17_failed_create_keeps_no_memory*/
__CPROVER_ensures(IMPLIES(!KEPT, g_ids_live == 0)) /*@C17_failed_create_keeps_no_file_id*/
__CPROVER_ensures(IMPLIES(!KEPT, g_comm_live == 0)) /*@C17_failed_create_keeps_no_communicator*/
__CPROVER_ensures(IMPLIES(!KEPT, g_driver_files == 0)) /*@C17_failed_create_keeps_no_driver_file*/
__CPROVER_ensures(IMPLIES(KEPT, g_heap_live == 2 && g_ids_live == 1 && g_driver_files == 1 && g_comm_live == (IN_user_comm ? 1 : 0) && *ncidp >= 0)) /*@successful_create_keeps_exactly_its_own_resources*/
;

#include TU_file_c

void harness(void)
{
    IN_cmode = nondet_int(); IN_nprocs = nondet_int(); IN_user_comm = nondet_bool(); IN_fail_dup = nondet_bool(); IN_fail_id = nondet_bool(); IN_hints = nondet_bool(); IN_create_ret = nondet_int();
    __CPROVER_assume(IN_nprocs >= 1 && IN_nprocs <= 4 && IN_create_ret <= 0);
    g_heap_live = 0; g_comm_live = 0; g_info_live = 0; g_ids_live = 0; g_driver_files = 0;
    char p[4]; p[0] = (char)102; p[1] = 0; p[2] = 0; p[3] = 0;   /* statics are not reliably initialised under DFCC */
    int id = -5; MPI_Comm user = (MPI_Comm)malloc(1);
    int r = ncmpi_create(IN_user_comm ? user : MPI_COMM_WORLD, p, IN_cmode, MPI_INFO_NULL, &id);
    CANARY(r == NC_NOERR && IN_user_comm, "created_on_user_communicator"); CANARY(r == NC_ENFILE, "too_many_files"); CANARY(r != NC_NOERR && IN_fail_dup && IN_user_comm && !IN_fail_id, "dup_failed"); CANARY(r == NC_EINVAL_CMODE, "bad_mode");
}
