/* C18 / C01: type_create_subarray64 (static, src/drivers/ncmpio/ncmpio_filetype.c, real code): the
 * file type of a subarray request when a dimension length or a start index exceeds 2^31-1 (CDF-5),
 * built from hvector / hindexed / resized because MPI_Type_create_subarray takes int arguments.
 * This build has no MPI large-count interface (HAVE_MPI_LARGE_COUNT undefined), so this is the path
 * every request beyond 2^31 elements in one dimension takes.
 *
 * MPI datatype constructors are a harness model with bodies (trusted): a type is described by the
 * byte displacement of its first element, its lower bound and extent, the length of its innermost
 * contiguous block and its (count, byte stride) levels from the inside out - which determines the
 * type map of every type this function can build.
 *
 * Reference (MPI standard, MPI_Type_create_subarray, C order; property C18 "elements whose byte
 * offset or linear index exceeds 2^31 or 2^32 are written to and read from the correct place"):
 *   first element at  el * SUM_i start[i] * PROD_{j>i} size[j]
 *   innermost block   el * subsize[n-1] bytes
 *   level for dim i   subsize[i] blocks, el * PROD_{j>i} size[j] bytes apart      (i = n-2 .. 0)
 *   lower bound 0, extent el * PROD_i size[i]
 * Instance constants (enumerated): ND, the dimension lengths SZ0..SZ2, the element size EL;
 * starts and subsizes are symbolic (all arithmetic is then linear). */
#include <config.h>
#include <stdlib.h>
#include <pnetcdf.h>
#include <dispatch.h>
#include <ncmpio_NC.h>
#include "vh.h"
typedef __int128 i128;

#ifndef ND
#define ND 2
#endif
#ifndef SZ0
#define SZ0 3LL
#endif
#ifndef SZ1
#define SZ1 ((1LL << 31) + 64)
#endif
#ifndef SZ2
#define SZ2 1LL
#endif
#ifndef EL
#define EL 1
#endif
#define FT(sym) FL(ncmpio_filetype, sym)

long long IN_start[ND], IN_sub[ND]; int IN_order;

typedef struct { long long size, first, lb, extent, blk; int nlev; long long cnt[3], str[3]; _Bool base; } tdesc;
#define NT 8
static tdesc g_t[NT]; int g_tn, g_live, g_small_path; int g_sa_nd; long long g_sa_size[3], g_sa_sub[3], g_sa_start[3];
static MPI_Datatype g_new;
#define HBASE 0x4000UL
#define HANDLE(k) ((MPI_Datatype)(HBASE + 16UL * (unsigned long)(k)))
#define IS_MODEL(t) ((unsigned long)(t) >= HBASE && (unsigned long)(t) < HBASE + 16UL * NT)
#define IDX(t) ((int)(((unsigned long)(t) - HBASE) / 16UL))
static tdesc desc_of(MPI_Datatype t)
{
    if (IS_MODEL(t)) return g_t[IDX(t)];
    tdesc d; d.size = EL; d.first = 0; d.lb = 0; d.extent = EL; d.blk = EL; d.nlev = 0; d.base = 1;
    d.cnt[0] = d.cnt[1] = d.cnt[2] = 0; d.str[0] = d.str[1] = d.str[2] = 0;
    return d;
}
static MPI_Datatype put(tdesc d) { int k = g_tn; if (g_tn < NT - 1) g_tn++; d.base = 0; g_t[k] = d; g_live++; return HANDLE(k); }

int MPI_Type_get_extent(MPI_Datatype t, MPI_Aint *lb, MPI_Aint *extent) { tdesc d = desc_of(t); *lb = d.lb; *extent = d.extent; return MPI_SUCCESS; }
int MPI_Type_commit(MPI_Datatype *t) { return MPI_SUCCESS; }
int MPI_Type_free(MPI_Datatype *t) { g_live--; *t = MPI_DATATYPE_NULL; return MPI_SUCCESS; }
int MPI_Type_create_hvector(int count, int bl, MPI_Aint stride, MPI_Datatype old, MPI_Datatype *newt)
{
    tdesc d = desc_of(old);
    if (d.nlev == 0 && d.base) d.blk = (long long)bl * d.size;       /* bl elements of a contiguous element type */
    else __CPROVER_assert(bl == 1, "model: hvector over a derived type uses block length 1");
    __CPROVER_assert(d.nlev < 3, "model: at most 3 levels");
    d.cnt[d.nlev] = count; d.str[d.nlev] = stride; d.nlev++;
    d.size = (long long)count * bl * d.size;
    *newt = put(d); return MPI_SUCCESS;
}
int MPI_Type_create_hindexed(int count, const int bls[], const MPI_Aint disps[], MPI_Datatype old, MPI_Datatype *newt)
{
    tdesc d = desc_of(old);
    __CPROVER_assert(count == 1, "model: one block");
    if (d.nlev == 0 && d.base) { d.blk = (long long)bls[0] * d.size; d.size = d.blk; }
    else __CPROVER_assert(bls[0] == 1, "model: hindexed over a derived type uses block length 1");
    d.first += disps[0];
    *newt = put(d); return MPI_SUCCESS;
}
int MPI_Type_create_resized(MPI_Datatype old, MPI_Aint lb, MPI_Aint extent, MPI_Datatype *newt)
{
    tdesc d = desc_of(old); d.lb = lb; d.extent = extent; *newt = put(d); return MPI_SUCCESS;
}
int MPI_Type_create_subarray(int ndims, const int sizes[], const int subsizes[], const int starts[], int order, MPI_Datatype old, MPI_Datatype *newt)
{
    g_small_path = 1; g_sa_nd = ndims;
    for (int i = 0; i < 3; i++) if (i < ndims) { g_sa_size[i] = sizes[i]; g_sa_sub[i] = subsizes[i]; g_sa_start[i] = starts[i]; }
    tdesc d = desc_of(old); *newt = put(d); return MPI_SUCCESS;
}

#define SZN(i) ((i) == 0 ? SZ0 : (i) == 1 ? SZ1 : SZ2)
static MPI_Offset g_sizes[3], g_subs[3], g_starts[3];
#define BIG ((SZ0 > NC_MAX_INT) || (ND > 1 && SZ1 > NC_MAX_INT) || (ND > 2 && SZ2 > NC_MAX_INT) || \
             IN_start[0] > NC_MAX_INT || (ND > 1 && IN_start[ND > 1 ? 1 : 0] > NC_MAX_INT) || (ND > 2 && IN_start[ND > 2 ? 2 : 0] > NC_MAX_INT))
/* row-major weights PROD_{j>i} size[j] (compile-time constants) */
#if ND == 1
#define WGT(i) 1LL
#define TOTAL (SZ0)
#define SPEC_FIRST ((i128)EL * (i128)IN_start[0])
#define SUB_TOO_BIG (IN_sub[0] > NC_MAX_INT)
#elif ND == 2
#define WGT(i) ((i) == 0 ? SZ1 : 1LL)
#define TOTAL ((i128)SZ0 * SZ1)
#define SPEC_FIRST ((i128)EL * ((i128)IN_start[0] * SZ1 + (i128)IN_start[1]))
#define SUB_TOO_BIG (IN_sub[0] > NC_MAX_INT || IN_sub[1] > NC_MAX_INT)
#else
#define WGT(i) ((i) == 0 ? SZ1 * SZ2 : (i) == 1 ? SZ2 : 1LL)
#define TOTAL ((i128)SZ0 * SZ1 * SZ2)
#define SPEC_FIRST ((i128)EL * ((i128)IN_start[0] * SZ1 * SZ2 + (i128)IN_start[1] * SZ2 + (i128)IN_start[2]))
#define SUB_TOO_BIG (IN_sub[0] > NC_MAX_INT || IN_sub[1] > NC_MAX_INT || IN_sub[2] > NC_MAX_INT)
#endif
#define NEW (g_t[IDX(g_new)])
#define OKRET (__CPROVER_return_value == NC_NOERR)
/* level l (from the inside) describes dimension ND-2-l */
#define LEVEL_OK(l) ((l) >= ND - 1 || (NEW.cnt[l] == IN_sub[ND - 2 - (l) >= 0 ? ND - 2 - (l) : 0] && NEW.str[l] == (long long)EL * WGT(ND - 2 - (l) >= 0 ? ND - 2 - (l) : 0)))

int FT(type_create_subarray64)(int ndims, const MPI_Offset *array_of_sizes, const MPI_Offset *array_of_subsizes, const MPI_Offset *array_of_starts,
                               int order, MPI_Datatype oldtype, MPI_Datatype *newtype)
__CPROVER_requires(ndims == ND && newtype == &g_new && !IS_MODEL(oldtype) && order == MPI_ORDER_C)
__CPROVER_requires(array_of_sizes == g_sizes && array_of_subsizes == g_subs && array_of_starts == g_starts)
__CPROVER_requires(g_tn == 0 && g_live == 0 && g_small_path == 0)
__CPROVER_assigns(g_new, __CPROVER_object_whole(g_t), g_tn, g_live, g_small_path, g_sa_nd, __CPROVER_object_whole(g_sa_size), __CPROVER_object_whole(g_sa_sub), __CPROVER_object_whole(g_sa_start))
__CPROVER_ensures(IMPLIES(!(BIG && SUB_TOO_BIG), OKRET)) /*@request_that_fits_the_mpi_arguments_gets_a_type*/
__CPROVER_ensures(IMPLIES(!OKRET, __CPROVER_return_value == NC_EINTOVERFLOW)) /*@only_the_documented_overflow_error*/
__CPROVER_ensures(IMPLIES(!OKRET, g_live == 0)) /*@C17_failed_construction_keeps_no_datatype*/
__CPROVER_ensures(IMPLIES(OKRET, IS_MODEL(g_new) && g_live == 1)) /*@C17_one_type_handed_back_and_every_intermediate_type_freed*/
__CPROVER_ensures(IMPLIES(OKRET, g_small_path == !BIG)) /*@int_interface_used_only_when_everything_fits_an_int*/
__CPROVER_ensures(IMPLIES(OKRET && BIG, (i128)NEW.first == SPEC_FIRST)) /*@C18_first_element_at_the_row_major_offset_of_the_start_indices*/
__CPROVER_ensures(IMPLIES(OKRET && BIG, NEW.lb == 0 && (i128)NEW.extent == (i128)EL * TOTAL)) /*@extent_is_the_whole_array*/
__CPROVER_ensures(IMPLIES(OKRET && BIG, NEW.blk == (long long)EL * IN_sub[ND - 1] && NEW.nlev == ND - 1)) /*@innermost_block_is_the_fastest_dimension_count*/
__CPROVER_ensures(IMPLIES(OKRET && BIG, LEVEL_OK(0) && LEVEL_OK(1))) /*@each_slower_dimension_is_count_blocks_one_row_major_stride_apart*/
__CPROVER_ensures(IMPLIES(OKRET && !BIG, g_sa_nd == ND && g_sa_size[0] == SZ0 && g_sa_sub[0] == IN_sub[0] && g_sa_start[0] == IN_start[0] &&
                                         g_sa_size[ND - 1] == SZN(ND - 1) && g_sa_sub[ND - 1] == IN_sub[ND - 1] && g_sa_start[ND - 1] == IN_start[ND - 1])) /*@small_request_passed_unchanged_to_MPI_Type_create_subarray*/
;

void harness(void)
{
    g_tn = 0; g_live = 0; g_small_path = 0; g_new = MPI_DATATYPE_NULL;
    for (int i = 0; i < ND; i++) {
        IN_start[i] = nondet_ll(); IN_sub[i] = nondet_ll();
        /* an accepted request (C15): inside the shape, non-empty */
        __CPROVER_assume(IN_start[i] >= 0 && IN_sub[i] >= 1 && IN_start[i] <= SZN(i) - IN_sub[i]);
    }
    for (int i = 0; i < ND; i++) { g_sizes[i] = SZN(i); g_subs[i] = IN_sub[i]; g_starts[i] = IN_start[i]; }
    int r = FT(type_create_subarray64)(ND, g_sizes, g_subs, g_starts, MPI_ORDER_C, MPI_BYTE, &g_new);
    CANARY(r == NC_NOERR && g_small_path == 0 && IN_start[0] > 0 && IN_sub[0] > 1, "large_path_with_offset_in_the_slowest_dimension");
    CANARY(r == NC_NOERR && g_small_path == 0 && IN_start[ND - 1] > NC_MAX_INT, "start_beyond_2e31");
#ifdef EXPECT_SMALL
    CANARY(r == NC_NOERR && g_small_path == 1, "small_path");
#endif
#ifdef EXPECT_OVERFLOW
    CANARY(r == NC_EINTOVERFLOW, "eintoverflow");
#endif
}
