/* C02: extract_reqs (static, ncmpio_wait.c) - the selection step of wait / wait_all: which pending
 * requests a wait completes and where each one reports its status.
 *   "Every completed request reports its own status and its id is reset to the null request.
 *    Requests not named in a wait stay pending and unaffected" - for any order of the ids, null ids,
 *    and (error case) ids that name nothing.
 * Instance: NL pending lead puts with one sub-request each, no pending get; the wait passes NR ids, each
 * symbolic: one of the pending ids, NC_REQ_NULL or an id that names nothing. */
#include <config.h>
#include <stdlib.h>
#include <pnetcdf.h>
#include <dispatch.h>
#include <ncmpio_NC.h>
#include "ghost.h"
#ifndef NL
#define NL 2
#endif
#ifndef NR
#define NR 2
#endif
#define WT(sym) FL(ncmpio_wait, sym)
NC_lead_req old_lead[NL]; NC_req old_req[NL]; int IN_id[NL], IN_rq[NR]; int G, GI; int *IN_statuses; NC_req *IN_put_list, *IN_lead_list_dummy;
#define IS_ID(x, k) ((x) == IN_id[k])
#define PENDING(x) (IS_ID(x, 0) || (NL > 1 && IS_ID(x, 1)) || (NL > 2 && IS_ID(x, 2)))
#define NAMES(i, k) (IN_rq[i] == IN_id[k])
#define NAMED(k) (NAMES(0, k) || (NR > 1 && NAMES(1, k)) || (NR > 2 && NAMES(2, k)))
#define SLOT(k) (NAMES(0, k) ? 0 : (NR > 1 && NAMES(1, k)) ? 1 : 2)      /* first position naming lead k */
#define BOGUS(i) (IN_rq[i] != NC_REQ_NULL && !PENDING(IN_rq[i]))
#define ANYBOGUS (BOGUS(0) || (NR > 1 && BOGUS(1)) || (NR > 2 && BOGUS(2)))
#define DUP ((NR > 1 && IN_rq[0] != NC_REQ_NULL && IN_rq[0] == IN_rq[1]) || (NR > 2 && IN_rq[0] != NC_REQ_NULL && IN_rq[0] == IN_rq[2]) || (NR > 2 && IN_rq[1] != NC_REQ_NULL && IN_rq[1] == IN_rq[2]))
#define NNAMED ((NAMED(0) ? 1 : 0) + (NL > 1 && NAMED(1) ? 1 : 0) + (NL > 2 && NAMED(2) ? 1 : 0))
#define UNNAMED_BEFORE(k) (((k) > 0 && !NAMED(0) ? 1 : 0) + ((k) > 1 && !NAMED(1) ? 1 : 0))
#define VALID_BEFORE(i) (((i) > 0 && IN_rq[0] != NC_REQ_NULL ? 1 : 0) + ((i) > 1 && IN_rq[1] != NC_REQ_NULL ? 1 : 0))
#define OK (__CPROVER_return_value == NC_NOERR)

int WT(extract_reqs)(NC *ncp, int num_reqs, int *req_ids, int *statuses, int *num_r_lead_reqs, int *num_r_reqs, NC_req **get_list,
                     int *num_w_lead_reqs, int *num_w_reqs, NC_req **put_list)
__CPROVER_requires(num_reqs == NR && ncp->numLeadPutReqs == NL && ncp->numPutReqs == NL && ncp->numLeadGetReqs == 0 && ncp->numGetReqs == 0 && statuses == IN_statuses && 0 <= G && G < NL && 0 <= GI && GI < NR)
__CPROVER_requires(req_ids[0] == IN_rq[0] && (NR < 2 || req_ids[1] == IN_rq[1]) && (NR < 3 || req_ids[2] == IN_rq[2]) && *put_list == NULL && *get_list == NULL)
__CPROVER_assigns(__CPROVER_object_whole(req_ids), __CPROVER_object_whole(statuses), *num_r_lead_reqs, *num_r_reqs, *get_list, *num_w_lead_reqs, *num_w_reqs, *put_list,
                  ncp->numPutReqs, ncp->put_list, __CPROVER_object_whole(ncp->put_lead_list), __CPROVER_object_whole(IN_put_list))
__CPROVER_frees(IN_put_list)
__CPROVER_ensures(IFF(OK, !ANYBOGUS && !DUP) && (OK || __CPROVER_return_value == NC_EINVAL_REQUEST)) /*@accepted_iff_every_id_is_null_or_names_a_distinct_pending_request*/
__CPROVER_ensures(IMPLIES(OK, ((ncp->put_lead_list[G].flag & NC_REQ_TO_FREE) != 0) == NAMED(G))) /*@completes_exactly_the_requests_named*/
__CPROVER_ensures(IMPLIES(OK && NAMED(G), ncp->put_lead_list[G].status == IN_statuses + SLOT(G) && IN_statuses[SLOT(G)] == NC_NOERR)) /*@each_request_reports_into_the_status_slot_of_the_position_that_names_it*/
__CPROVER_ensures(IMPLIES(OK, req_ids[GI] == NC_REQ_NULL && IMPLIES(IN_rq[GI] == NC_REQ_NULL, IN_statuses[GI] == NC_NOERR))) /*@ids_reset_to_null_null_ids_report_no_error*/
__CPROVER_ensures(IMPLIES(OK, *num_w_lead_reqs == NNAMED && *num_w_reqs == NNAMED && *num_r_lead_reqs == 0 && *num_r_reqs == 0 && ncp->numPutReqs == NL - NNAMED)) /*@counts_match_the_selection*/
__CPROVER_ensures(IMPLIES(OK && !NAMED(G), ncp->put_lead_list[G].id == old_lead[G].id && ncp->put_lead_list[G].buf == old_lead[G].buf && ncp->put_lead_list[G].nonlead_num == 1 &&
                          ncp->put_lead_list[G].nonlead_off == UNNAMED_BEFORE(G) && IMPLIES(NNAMED > 0 && NNAMED < NL, ncp->put_list[UNNAMED_BEFORE(G)].xbuf == old_req[G].xbuf))) /*@unnamed_requests_stay_pending_with_their_subrequests*/
__CPROVER_ensures(IMPLIES(OK && IN_rq[GI] != NC_REQ_NULL && NNAMED < NL, (*put_list)[VALID_BEFORE(GI)].xbuf == old_req[IN_rq[GI] == IN_id[0] ? 0 : (NL > 1 && IN_rq[GI] == IN_id[1]) ? 1 : 2].xbuf)) /*@extracted_subrequests_are_those_of_the_named_requests*/
__CPROVER_ensures(IMPLIES(!OK, ((ncp->put_lead_list[G].flag & NC_REQ_TO_FREE) == 0) && ncp->numPutReqs == NL)) /*@rejected_wait_leaves_every_request_pending_and_unmarked*/
__CPROVER_ensures(IMPLIES(!OK && BOGUS(GI), IN_statuses[GI] == NC_EINVAL_REQUEST)) /*@unknown_id_reported_in_its_own_slot*/
;

static NC nc; static NC_var var[NL]; static char ub[NL][8];
void harness(void)
{
    G = nondet_int(); GI = nondet_int(); __CPROVER_assume(0 <= G && G < NL && 0 <= GI && GI < NR);
    NC_lead_req *leads = malloc(4 * sizeof(NC_lead_req)); NC_req *reqs = malloc(4 * sizeof(NC_req)); IN_put_list = reqs;
    for (int k = 0; k < NL; k++) {
        IN_id[k] = nondet_int(); __CPROVER_assume(IN_id[k] >= 0 && IN_id[k] < 1000 && (IN_id[k] & 1) == 0);
        for (int m = 0; m < NL; m++) if (m < k) __CPROVER_assume(IN_id[m] != IN_id[k]);
        leads[k].id = IN_id[k]; leads[k].flag = nondet_int() & ~NC_REQ_TO_FREE; leads[k].nonlead_off = k; leads[k].nonlead_num = 1; leads[k].buf = ub[k]; leads[k].xbuf = ub[k]; leads[k].varp = &var[k]; leads[k].status = NULL;
        leads[k].start = NULL; leads[k].abuf_index = -1;
        reqs[k].lead_off = k; reqs[k].xbuf = ub[k]; reqs[k].start = NULL; reqs[k].nelems = 1; old_lead[k] = leads[k]; old_req[k] = reqs[k];
    }
    int *ids = malloc(NR * sizeof(int)); int *st = malloc(NR * sizeof(int)); IN_statuses = st;
    for (int i = 0; i < NR; i++) { IN_rq[i] = nondet_int(); __CPROVER_assume(IN_rq[i] == NC_REQ_NULL || (IN_rq[i] >= 0 && IN_rq[i] < 1002)); ids[i] = IN_rq[i]; st[i] = 77; }
    nc.put_lead_list = leads; nc.put_list = reqs; nc.numLeadPutReqs = NL; nc.numPutReqs = NL; nc.get_lead_list = NULL; nc.get_list = NULL; nc.numLeadGetReqs = 0; nc.numGetReqs = 0;
    int nrl = -1, nr = -1, nwl = -1, nw = -1; NC_req *gl = NULL, *pl = NULL;
    int r = WT(extract_reqs)(&nc, NR, ids, st, &nrl, &nr, &gl, &nwl, &nw, &pl);
    CANARY(r == NC_NOERR && nwl == NL, "all_named"); CANARY(r == NC_NOERR && nwl == NL && NR > 1 && IN_rq[0] == IN_id[NL - 1], "named_in_reverse_order");
    CANARY(r == NC_NOERR && nwl < NL && nwl > 0, "proper_subset"); CANARY(r == NC_EINVAL_REQUEST, "unknown_id"); CANARY(r == NC_NOERR && nwl == 0, "only_null_ids");
}
