/* put_varm (static, regenerated src/drivers/ncmpio/ncmpio_getput.c) under contract, callees replaced
 * by the contracts of getput_callees.h / sync_contracts.h.
 * Clauses: C05 record count, C13 swap parity of the caller's buffer, C11 failure reported,
 * C08 collective participation independent of local errors, C17 datatype / heap balance. */
#include <config.h>
#include <stdlib.h>
#include <pnetcdf.h>
#include <dispatch.h>
#include <ncmpio_NC.h>
#include <common.h>
#include "ghost.h"
int IN_flags, IN_format, IN_rank, IN_nprocs, IN_num_rec_vars, IN_reqMode; long long IN_numrecs, IN_new_numrecs, IN_start0, IN_count0, IN_stride0;
_Bool IN_isrec, IN_has_stride, IN_zero_req;
#include "sync_contracts.h"
#include "getput_callees.h"
#ifndef NDIMS
#define NDIMS 2
#endif
#ifndef STRIDE0   /* record-dimension stride of the instance (enumerated; 0 = stride argument is NULL) */
#define STRIDE0 0
#endif

long long g_decoded_nbytes;   /* ghost: what the request decodes to (bytes to transfer) */
int g_decoded_contig;
#define ISREC(varp) ((varp) != NULL && (varp)->shape != NULL && (varp)->shape[0] == NC_UNLIMITED)
#define IS_COLL(m) (((m) & NC_REQ_COLL) != 0)
#define NEWREC(start, count, stride) ((stride) == NULL ? (start)[0] + (count)[0] : (start)[0] + ((count)[0] - 1) * (stride)[0] + 1)
#define OKRET(r) ((r) == NC_NOERR || (r) == NC_ERANGE)

int FL(ncmpio_getput, put_varm)(NC *ncp, NC_var *varp, const MPI_Offset *start, const MPI_Offset *count, const MPI_Offset *stride,
                                const MPI_Offset *imap, void *buf, MPI_Offset bufcount, MPI_Datatype buftype, int reqMode)
__CPROVER_requires(ncp != NULL && WF_NC_BASIC(ncp) && WF_NC_STATS_LOW(ncp) && ncp->my_aggr < 0)           /* instance: no intra-node aggregation */
__CPROVER_requires(IS_COLL(reqMode) != ((reqMode & NC_REQ_INDEP) != 0))
__CPROVER_requires(bufcount == NC_COUNT_IGNORE || bufcount >= 1)      /* a flexible request that transfers something has a positive count */
__CPROVER_requires(g_coll_n == 0 && g_io_n == 0 && g_nwrites == 0 && g_io_failed == 0 && g_type_live == 0 && g_user_swaps == 0 && g_user_buf == buf)
__CPROVER_requires(varp == NULL || (varp->ndims == NDIMS && varp->shape != NULL && varp->xsz >= 1 && varp->xsz <= 8 &&
                   start != NULL && count != NULL && start[0] >= 0 && start[0] < ((long long)1 << 40) && count[0] >= 1 && count[0] < 1024 &&
                   (stride == NULL || stride[0] == STRIDE0)))
__CPROVER_assigns(ncp->numrecs, ncp->put_size, ncp->get_size, ncp->flags, __CPROVER_object_whole(buf), g_user_swaps, g_decoded_nbytes, g_decoded_contig, GHOST_ASSIGNS)
/* C13 */
__CPROVER_ensures(g_user_swaps % 2 == 0) /*@C13_user_buffer_swapped_back*/
/* C10 / C13: the caller's buffer is byte-swapped in place only when that is allowed: contiguous buffer
 * type, hint not 'disable', and hint 'enable' or a request above the in-place-swap threshold */
__CPROVER_ensures(IMPLIES(g_user_swaps > 0, g_decoded_contig && !(ncp->flags & NC_MODE_SWAP_OFF) &&
      ((ncp->flags & NC_MODE_SWAP_ON) || g_decoded_nbytes > NC_BYTE_SWAP_BUFFER_SIZE))) /*@C10_in_place_swap_only_when_permitted_and_contiguous*/
/* C05 */
__CPROVER_ensures(ncp->numrecs >= __CPROVER_old(ncp->numrecs)) /*@C05_numrecs_never_decreases*/
__CPROVER_ensures(IMPLIES(ISREC(varp) && !IS_COLL(reqMode) && OKRET(__CPROVER_return_value) && g_io_n >= 1 && g_io_count[0] > 0,
      ncp->numrecs == LLMAX(__CPROVER_old(ncp->numrecs), NEWREC(start, count, stride)))) /*@C05_indep_numrecs_covers_written_records*/
__CPROVER_ensures(IMPLIES(ISREC(varp) && !IS_COLL(reqMode) && ncp->numrecs > __CPROVER_old(ncp->numrecs), (ncp->flags & NC_NDIRTY) != 0)) /*@C05_indep_growth_marks_dirty*/
__CPROVER_ensures(IMPLIES(ISREC(varp) && IS_COLL(reqMode) && g_nprocs == 1 && OKRET(__CPROVER_return_value) && g_io_n >= 1 && g_io_count[0] > 0,
      ncp->numrecs == LLMAX(__CPROVER_old(ncp->numrecs), NEWREC(start, count, stride)))) /*@C05_coll_single_numrecs_covers_written_records*/
__CPROVER_ensures(IMPLIES(ISREC(varp) && IS_COLL(reqMode) && g_nprocs > 1 && OKRET(__CPROVER_return_value),
      ncp->numrecs == LLMAX(__CPROVER_old(ncp->numrecs), g_agreed_ll[2]))) /*@C05_coll_numrecs_is_agreed_maximum*/
__CPROVER_ensures(IMPLIES(!ISREC(varp), ncp->numrecs == __CPROVER_old(ncp->numrecs))) /*@C05_fixed_variable_leaves_numrecs*/
/* C11 */
__CPROVER_ensures(IMPLIES(g_io_failed, __CPROVER_return_value != NC_NOERR)) /*@C11_io_failure_reported*/
/* C08: a collective call issues its collectives whatever the local outcome */
__CPROVER_ensures(IMPLIES(IS_COLL(reqMode) && g_nprocs > 1, g_coll_n >= 2 && g_coll_kind[0] == COLL_FILE_SET_VIEW)) /*@C08_collective_participation_despite_local_error*/
__CPROVER_ensures(IMPLIES(IS_COLL(reqMode) && g_nprocs > 1 && ISREC(varp), g_coll_n >= 3 && g_coll_kind[2] == COLL_ALLREDUCE)) /*@C08_numrecs_allreduce_always*/
/* C17 */
__CPROVER_ensures(IMPLIES(OKRET(__CPROVER_return_value), g_type_live == 0)) /*@C17_datatypes_released*/
;

static NC nc; static NC_var var; static MPI_Offset shp[NDIMS], st[NDIMS], ct[NDIMS], sd[NDIMS]; static char ubuf[8];
void harness(void)
{
    ghost_setup(1);
    IN_flags = nondet_int(); IN_format = nondet_int(); IN_numrecs = nondet_ll(); IN_num_rec_vars = nondet_int();
    IN_reqMode = nondet_int(); IN_isrec = nondet_bool(); IN_has_stride = nondet_bool(); IN_zero_req = nondet_bool();
    IN_start0 = nondet_ll(); IN_count0 = nondet_ll(); IN_stride0 = nondet_ll();
    nc.flags = IN_flags; nc.format = IN_format; nc.numrecs = IN_numrecs; nc.vars.num_rec_vars = IN_num_rec_vars;
    nc.rank = g_rank; nc.nprocs = g_nprocs; nc.my_aggr = -1; nc.put_size = 0; nc.get_size = 0;
    nc.recsize = nondet_ll(); nc.begin_var = nondet_ll(); nc.safe_mode = 0;
    var.ndims = NDIMS; var.xsz = 4; var.xtype = NC_INT; var.varid = 0; var.shape = shp; var.begin = 1024; var.len = 64;
    shp[0] = IN_isrec ? NC_UNLIMITED : 16; for (int i = 1; i < NDIMS; i++) { shp[i] = 4; st[i] = 0; ct[i] = 1; sd[i] = 1; }
    st[0] = IN_start0; ct[0] = IN_count0; sd[0] = STRIDE0; IN_stride0 = STRIDE0; IN_has_stride = (STRIDE0 != 0);
    g_user_buf = ubuf; g_user_swaps = 0;
    int r = FL(ncmpio_getput, put_varm)(&nc, IN_zero_req ? NULL : &var, st, ct, IN_has_stride ? sd : NULL, NULL, ubuf,
                                        nondet_ll(), MPI_INT, IN_reqMode);
    CANARY(r == NC_NOERR && IN_isrec && nc.numrecs > IN_numrecs && (IN_reqMode & NC_REQ_COLL), "coll_grew");
    CANARY(r == NC_NOERR && IN_isrec && nc.numrecs > IN_numrecs && (IN_reqMode & NC_REQ_INDEP), "indep_grew");
    CANARY(r == NC_ERANGE, "erange");
    CANARY(g_user_swaps == 2, "swapped_in_place");
    CANARY(g_io_failed && r != NC_NOERR, "failure_reported");
    CANARY(IN_zero_req && r == NC_NOERR, "zero_req");
}
