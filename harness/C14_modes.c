/* C14: mode-changing APIs of src/dispatchers/file.c (real code, #included) composed with an arbitrary
 * driver (driver entries are contracts only: any return code, counted).  State machine of appendix
 * B.3: a rejected call changes no flag and does not enter the driver; a successful call has exactly
 * the documented effect on the dispatcher's mode flags. */
#include <config.h>
#include <stdlib.h>
#include <pnetcdf.h>
#include <dispatch.h>
#include "ghost.h"

static PNC g_pnc; PNC *g_pncp; int g_drv_calls; int IN_flag, IN_ncid; _Bool IN_valid;

/* driver entries: contracts only */
int drv_simple(void *ncp)
__CPROVER_assigns(g_drv_calls)
__CPROVER_ensures(g_drv_calls == __CPROVER_old(g_drv_calls) + 1)
;
int drv__enddef(void *ncp, MPI_Offset a, MPI_Offset b, MPI_Offset c, MPI_Offset d)
__CPROVER_assigns(g_drv_calls)
__CPROVER_ensures(g_drv_calls == __CPROVER_old(g_drv_calls) + 1)
;
/* id lookup: contract of PNC_check_id as far as these callers need it (its full contract is
 * enforced in C17) */
int PNC_check_id(int ncid, PNC **pncp)
__CPROVER_assigns(*pncp)
__CPROVER_ensures(__CPROVER_return_value == NC_NOERR || __CPROVER_return_value == NC_EBADID)
__CPROVER_ensures(__CPROVER_return_value == NC_NOERR ==> __CPROVER_pointer_equals(*pncp, g_pncp))
__CPROVER_ensures(IFF(__CPROVER_return_value == NC_NOERR, IN_valid))
;

#define F0 __CPROVER_old(g_pnc.flag)
#define MODE_BITS (NC_MODE_DEF | NC_MODE_INDEP)
#define REJECTED_NO_EFFECT (g_pnc.flag == F0 && g_drv_calls == 0)

#define COMMON_REQ __CPROVER_requires(g_pncp == &g_pnc && g_drv_calls == 0 && g_pnc.flag == IN_flag && !(g_pnc.flag & NC_MODE_SAFE) && g_coll_n == 0)
#define COMMON_ASG __CPROVER_assigns(g_pnc.flag, g_drv_calls)

int ncmpi_enddef(int ncid)
COMMON_REQ COMMON_ASG
__CPROVER_ensures(IMPLIES(!IN_valid, __CPROVER_return_value == NC_EBADID && REJECTED_NO_EFFECT)) /*@bad_id_EBADID_no_effect*/
__CPROVER_ensures(IMPLIES(IN_valid && !(F0 & NC_MODE_DEF), __CPROVER_return_value == NC_ENOTINDEFINE && REJECTED_NO_EFFECT)) /*@not_in_define_mode_ENOTINDEFINE_no_effect*/
__CPROVER_ensures(IMPLIES(IN_valid && (F0 & NC_MODE_DEF), g_drv_calls == 1)) /*@permitted_call_enters_driver_once*/
__CPROVER_ensures(IMPLIES(IN_valid && (F0 & NC_MODE_DEF) && __CPROVER_return_value == NC_NOERR, g_pnc.flag == (F0 & ~MODE_BITS))) /*@success_enters_collective_data_mode*/
__CPROVER_ensures(IMPLIES(__CPROVER_return_value != NC_NOERR, g_pnc.flag == F0)) /*@failure_leaves_mode*/
;
int ncmpi__enddef(int ncid, MPI_Offset h_minfree, MPI_Offset v_align, MPI_Offset v_minfree, MPI_Offset r_align)
COMMON_REQ COMMON_ASG
__CPROVER_ensures(IMPLIES(!IN_valid, __CPROVER_return_value == NC_EBADID && REJECTED_NO_EFFECT)) /*@bad_id_EBADID_no_effect*/
__CPROVER_ensures(IMPLIES(IN_valid && !(F0 & NC_MODE_DEF), __CPROVER_return_value == NC_ENOTINDEFINE && REJECTED_NO_EFFECT)) /*@not_in_define_mode_ENOTINDEFINE_no_effect*/
__CPROVER_ensures(IMPLIES(IN_valid && (F0 & NC_MODE_DEF) && __CPROVER_return_value == NC_NOERR, g_pnc.flag == (F0 & ~MODE_BITS) && g_drv_calls == 1)) /*@success_enters_collective_data_mode*/
__CPROVER_ensures(IMPLIES(__CPROVER_return_value != NC_NOERR, g_pnc.flag == F0)) /*@failure_leaves_mode*/
;
int ncmpi_redef(int ncid)
COMMON_REQ COMMON_ASG
__CPROVER_ensures(IMPLIES(!IN_valid, __CPROVER_return_value == NC_EBADID && REJECTED_NO_EFFECT)) /*@bad_id_EBADID_no_effect*/
__CPROVER_ensures(IMPLIES(IN_valid && (F0 & NC_MODE_RDONLY), __CPROVER_return_value == NC_EPERM && REJECTED_NO_EFFECT)) /*@readonly_EPERM_first_no_effect*/
__CPROVER_ensures(IMPLIES(IN_valid && !(F0 & NC_MODE_RDONLY) && (F0 & NC_MODE_DEF), __CPROVER_return_value == NC_EINDEFINE && REJECTED_NO_EFFECT)) /*@define_mode_EINDEFINE_no_effect*/
__CPROVER_ensures(IMPLIES(IN_valid && !(F0 & NC_MODE_RDONLY) && !(F0 & NC_MODE_DEF) && __CPROVER_return_value == NC_NOERR, g_pnc.flag == (F0 | NC_MODE_DEF) && g_drv_calls == 1)) /*@success_enters_define_mode*/
__CPROVER_ensures(IMPLIES(__CPROVER_return_value != NC_NOERR, g_pnc.flag == F0)) /*@failure_leaves_mode*/
;
int ncmpi_begin_indep_data(int ncid)
COMMON_REQ COMMON_ASG
__CPROVER_ensures(IMPLIES(!IN_valid, __CPROVER_return_value == NC_EBADID && REJECTED_NO_EFFECT)) /*@bad_id_EBADID_no_effect*/
__CPROVER_ensures(IMPLIES(IN_valid && __CPROVER_return_value == NC_NOERR, g_pnc.flag == (F0 | NC_MODE_INDEP) && g_drv_calls == 1)) /*@success_enters_independent_mode*/
__CPROVER_ensures(IMPLIES(__CPROVER_return_value != NC_NOERR, g_pnc.flag == F0)) /*@failure_leaves_mode*/
;
int ncmpi_end_indep_data(int ncid)
COMMON_REQ COMMON_ASG
__CPROVER_ensures(IMPLIES(!IN_valid, __CPROVER_return_value == NC_EBADID && REJECTED_NO_EFFECT)) /*@bad_id_EBADID_no_effect*/
__CPROVER_ensures(IMPLIES(IN_valid && __CPROVER_return_value == NC_NOERR, g_pnc.flag == (F0 & ~NC_MODE_INDEP) && g_drv_calls == 1)) /*@success_enters_collective_mode*/
__CPROVER_ensures(IMPLIES(__CPROVER_return_value != NC_NOERR, g_pnc.flag == F0)) /*@failure_leaves_mode*/
;

#include TU_file_c

static PNC_driver g_drv;
void harness(void)
{
    IN_flag = nondet_int(); IN_ncid = nondet_int(); IN_valid = nondet_bool();
    g_drv.enddef = drv_simple; g_drv.redef = drv_simple; g_drv.begin_indep_data = drv_simple; g_drv.end_indep_data = drv_simple; g_drv._enddef = drv__enddef;
    g_pnc.flag = IN_flag & ~NC_MODE_SAFE; IN_flag = g_pnc.flag; g_pnc.driver = &g_drv; g_pnc.ncp = NULL; g_pnc.comm = MPI_COMM_WORLD;
    g_pncp = &g_pnc; g_drv_calls = 0; g_coll_n = 0;
    int r = API(IN_ncid API_EXTRA);
    CANARY(r == NC_NOERR, "noerr"); CANARY(r == NC_EBADID, "ebadid"); CANARY(r != NC_NOERR && r != NC_EBADID, "rejected_or_driver_error");
}
