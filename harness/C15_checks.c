/* C15: argument checks of src/dispatchers/var_getput.m4 (regenerated var_getput.c, real code) */
#include <config.h>
#include <pnetcdf.h>
#include <dispatch.h>
#include "vh.h"
#include "request_spec.h"

long long IN_start, IN_count, IN_stride, IN_shape; int IN_strict; _Bool IN_has_stride;

#include "c15_contracts.h"

#ifdef H_EINVALCOORDS
void harness(void)
{
    IN_start = nondet_ll(); IN_count = nondet_ll(); IN_shape = nondet_ll(); IN_strict = nondet_int();
    int r = FL(var_getput, check_EINVALCOORDS)(nondet_int(), nondet_ll(), nondet_ll(), nondet_ll());
    CANARY(r == NC_NOERR, "noerr"); CANARY(r == NC_EINVALCOORDS, "einvalcoords");
    CANARY(r == NC_NOERR && IN_start == IN_shape, "relaxed_boundary");
}
#endif
#ifdef H_EEDGE
void harness(void)
{
    IN_start = nondet_ll(); IN_count = nondet_ll(); IN_shape = nondet_ll(); IN_stride = nondet_ll(); IN_has_stride = nondet_bool();
    const MPI_Offset *a, *b, *c, *d;
    int r = FL(var_getput, check_EEDGE)(a, b, c, d);
    CANARY(r == NC_NOERR && IN_has_stride && IN_count > 1 && IN_stride > 1, "noerr_strided");
    CANARY(r == NC_EEDGE && IN_has_stride, "eedge_strided");
    CANARY(r == NC_NOERR && !IN_has_stride, "noerr_plain");
}
#endif
