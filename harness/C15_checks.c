/* C15: argument checks of src/dispatchers/var_getput.m4 (regenerated var_getput.c, real code) */
#include <config.h>
#include <pnetcdf.h>
#include <dispatch.h>
#include "vh.h"
#include "request_spec.h"

long long IN_start, IN_count, IN_stride, IN_shape; int IN_strict; _Bool IN_has_stride;

/* ---- check_EINVALCOORDS: all 64-bit inputs ------------------------------- */
int FL(var_getput, check_EINVALCOORDS)(int strict_coord_bound, MPI_Offset start, MPI_Offset count, MPI_Offset shape)
__CPROVER_requires(shape >= 0)
#ifdef ENFORCE_check_EINVALCOORDS
__CPROVER_requires(start == IN_start && count == IN_count && shape == IN_shape && strict_coord_bound == IN_strict) /* tie */
#endif
__CPROVER_assigns()
__CPROVER_ensures(__CPROVER_return_value == NC_NOERR || __CPROVER_return_value == NC_EINVALCOORDS) /*@retcode*/
__CPROVER_ensures(IMPLIES(spec_coord_ok(strict_coord_bound != 0, start, count, shape) == 1, __CPROVER_return_value == NC_NOERR)) /*@valid_coord_accepted*/
__CPROVER_ensures(IMPLIES(spec_coord_ok(strict_coord_bound != 0, start, count, shape) == 0, __CPROVER_return_value == NC_EINVALCOORDS)) /*@invalid_coord_rejected*/
;

/* ---- check_EEDGE ---------------------------------------------------------
 * preconditions from the only call site (check_start_count_stride): the coordinate check has
 * passed (0 <= start <= shape), count >= 0, shape >= 0.  No magnitude restriction: the overflow
 * obligations are on the full 64-bit domain.  The functional clause for the strided form is
 * stated for stride >= 1 (stride <= 0 is NC_ESTRIDE, whose order against NC_EEDGE the documents
 * leave open). */
int FL(var_getput, check_EEDGE)(const MPI_Offset *start, const MPI_Offset *count, const MPI_Offset *stride, const MPI_Offset *shape)
__CPROVER_requires(__CPROVER_is_fresh(start, sizeof(MPI_Offset)) && __CPROVER_is_fresh(count, sizeof(MPI_Offset)) && __CPROVER_is_fresh(shape, sizeof(MPI_Offset)))
__CPROVER_requires(stride == NULL || __CPROVER_is_fresh(stride, sizeof(MPI_Offset)))
__CPROVER_requires(*shape >= 0 && *count >= 0 && 0 <= *start && *start <= *shape)
#ifdef WIDTH_BOUND
__CPROVER_requires(*count < ((long long)1 << WIDTH_BOUND) && (stride == NULL || *stride < ((long long)1 << WIDTH_BOUND)) && *shape < ((long long)1 << (2*WIDTH_BOUND)))
#endif
#ifdef STRIDE_CONST  /* enumerated by the runner; start, count, shape stay full-width symbolic */
__CPROVER_requires(stride != NULL && *stride == STRIDE_CONST)
#endif
#ifdef ENFORCE_check_EEDGE
__CPROVER_requires(*start == IN_start && *count == IN_count && *shape == IN_shape && IN_has_stride == (stride != NULL) && IMPLIES(stride != NULL, *stride == IN_stride)) /* tie */
#endif
__CPROVER_assigns()
__CPROVER_ensures(__CPROVER_return_value == NC_NOERR || __CPROVER_return_value == NC_EEDGE) /*@retcode*/
__CPROVER_ensures(IMPLIES(stride == NULL,
      IFF(__CPROVER_return_value == NC_NOERR, spec_edge_ok(*start, *count, 0, 1, *shape)))) /*@edge_iff_spec_unstrided*/
__CPROVER_ensures(IMPLIES(__CPROVER_return_value == NC_NOERR, (i128)*start + (i128)*count <= (i128)*shape)) /*@accepted_fits_contiguously*/
#ifdef CLAUSE_STRIDED  /* nonlinear: decided under operand-width bounds only (DESIGN 1.2) */
__CPROVER_ensures(IMPLIES(stride != NULL && *stride >= 1,
      IFF(__CPROVER_return_value == NC_NOERR, spec_edge_ok(*start, *count, 1, *stride, *shape)))) /*@edge_iff_spec_strided*/
#endif
;

#ifdef H_EINVALCOORDS
void harness(void)
{
    IN_start = nondet_ll(); IN_count = nondet_ll(); IN_shape = nondet_ll(); IN_strict = nondet_int();
    int r = FL(var_getput, check_EINVALCOORDS)(nondet_int(), nondet_ll(), nondet_ll(), nondet_ll());
    CANARY(r == NC_NOERR, "noerr"); CANARY(r == NC_EINVALCOORDS, "einvalcoords");
    CANARY(r == NC_NOERR && IN_start == IN_shape, "relaxed_boundary");
}
#endif
#ifdef H_EEDGE
void harness(void)
{
    IN_start = nondet_ll(); IN_count = nondet_ll(); IN_shape = nondet_ll(); IN_stride = nondet_ll(); IN_has_stride = nondet_bool();
    const MPI_Offset *a, *b, *c, *d;
    int r = FL(var_getput, check_EEDGE)(a, b, c, d);
    CANARY(r == NC_NOERR && IN_has_stride && IN_count > 1 && IN_stride > 1, "noerr_strided");
    CANARY(r == NC_EEDGE && IN_has_stride, "eedge_strided");
    CANARY(r == NC_NOERR && !IN_has_stride, "noerr_plain");
}
#endif
