/* ncmpio__enddef (src/drivers/ncmpio/ncmpio_enddef.c) under contract, every callee replaced by a
 * contract.  C03/C10: alignment resolution (precedence hint > API argument > default, values
 * handed to the layout computation are >= 4 and multiples of 4, reported == in force);
 * C05/C15: record-variable count recomputed; C06: data movement order (records, then fixed
 * variables, then header write, then fill); C14: mode flags; C11: header-write error returned. */
#include <config.h>
#include <stdlib.h>
#include <pnetcdf.h>
#include <dispatch.h>
#include <ncmpio_NC.h>
#include "ghost.h"
#ifndef NVARS
#define NVARS 2
#endif
#define ED(sym) FL(ncmpio_enddef, sym)
enum { ST_BEGINS = 1, ST_MOVE_REC, ST_MOVE_FIX, ST_WRITE_NC, ST_FILL, ST_FREE_OLD };
int g_step_n, g_step[8];            /* ghost: order in which the phases are entered */
int g_write_nc_ret;                 /* ghost: what the header write returned */
long long IN_env_h, IN_env_v, IN_env_r, IN_v_align, IN_r_align; int IN_flags, IN_nfix; _Bool IN_old, IN_isrec[NVARS];

#define STEP(k) (g_step_n == __CPROVER_old(g_step_n) + 1 && g_step[__CPROVER_old(g_step_n)] == (k) && \
   IMPLIES(__CPROVER_old(g_step_n) > 0, g_step[0] == __CPROVER_old(g_step[0])) && IMPLIES(__CPROVER_old(g_step_n) > 1, g_step[1] == __CPROVER_old(g_step[1])) && \
   IMPLIES(__CPROVER_old(g_step_n) > 2, g_step[2] == __CPROVER_old(g_step[2])) && IMPLIES(__CPROVER_old(g_step_n) > 3, g_step[3] == __CPROVER_old(g_step[3])))
#define STEP_REQ __CPROVER_requires(g_step_n >= 0 && g_step_n < 7)
#define STEP_ASG g_step_n, __CPROVER_object_whole(g_step)

int ncmpio_NC_check_vlens(NC *ncp) __CPROVER_assigns() __CPROVER_ensures(1);
/* layout computation: needs 4-byte-multiple alignments and the header-free-space arguments in place */
int ED(NC_begins)(NC *ncp)
STEP_REQ
__CPROVER_requires(ncp->h_align >= 4 && ncp->h_align % 4 == 0 && ncp->v_align >= 4 && ncp->v_align % 4 == 0 && ncp->r_align >= 4 && ncp->r_align % 4 == 0) /*@alignments_handed_to_layout_are_multiples_of_4*/
__CPROVER_assigns(ncp->begin_var, ncp->begin_rec, ncp->recsize, ncp->xsz, STEP_ASG)
__CPROVER_ensures(STEP(ST_BEGINS))
__CPROVER_ensures(IMPLIES(ncp->old != NULL && __CPROVER_return_value == NC_NOERR, ncp->begin_var >= ncp->old->begin_var && ncp->begin_rec >= ncp->old->begin_rec))
;
int ncmpio_NC_check_voffs(NC *ncp) __CPROVER_assigns() __CPROVER_ensures(1);
int ED(move_record_vars)(NC *ncp, NC *old) STEP_REQ __CPROVER_assigns(STEP_ASG, GH_COLL, GH_IO) __CPROVER_ensures(STEP(ST_MOVE_REC));
int ED(move_fixed_vars)(NC *ncp, NC *old) STEP_REQ __CPROVER_assigns(STEP_ASG, GH_COLL, GH_IO) __CPROVER_ensures(STEP(ST_MOVE_FIX));
int ED(write_NC)(NC *ncp) STEP_REQ __CPROVER_assigns(STEP_ASG, g_write_nc_ret, GH_COLL, GH_IO) __CPROVER_ensures(STEP(ST_WRITE_NC) && g_write_nc_ret == __CPROVER_return_value);
int ncmpio_fill_vars(NC *ncp) STEP_REQ __CPROVER_assigns(STEP_ASG, GH_COLL, GH_IO) __CPROVER_ensures(STEP(ST_FILL));
void ncmpio_free_NC(NC *ncp) STEP_REQ __CPROVER_assigns(STEP_ASG) __CPROVER_ensures(STEP(ST_FREE_OLD));

static inline int spec_count_rec(const NC *ncp)
{
    int n = 0;
    for (int i = 0; i < NVARS; i++) { const NC_var *v = ncp->vars.value[i]; if (v->shape != NULL && v->shape[0] == NC_UNLIMITED) n++; }
    return n;
}
static inline int spec_pos(int k) { for (int i = 0; i < 8; i++) if (i < g_step_n && g_step[i] == k) return i; return -1; }
#define RND4(x) ((((x) + 3) / 4) * 4)
/* documented precedence: hint (environment / info) > argument of ncmpi__enddef > default */
#define SPEC_V(envv, arg) RND4((envv) > 0 ? (envv) : (arg) > 0 ? (arg) : 4)

int ncmpio__enddef(void *ncdp, MPI_Offset h_minfree, MPI_Offset v_align, MPI_Offset v_minfree, MPI_Offset r_align)
__CPROVER_requires(((NC*)ncdp)->vars.ndefined == NVARS && ((NC*)ncdp)->safe_mode == 0 && g_step_n == 0 && g_coll_n == 0 && g_io_n == 0)
__CPROVER_requires(v_align >= 0 && r_align >= 0 && v_align < ((long long)1 << 40) && r_align < ((long long)1 << 40) && h_minfree >= 0 && v_minfree >= 0)
__CPROVER_requires(((NC*)ncdp)->env_h_align >= 0 && ((NC*)ncdp)->env_v_align >= 0 && ((NC*)ncdp)->env_r_align >= 0 &&
                   ((NC*)ncdp)->env_h_align < ((long long)1 << 40) && ((NC*)ncdp)->env_v_align < ((long long)1 << 40) && ((NC*)ncdp)->env_r_align < ((long long)1 << 40))
__CPROVER_assigns(__CPROVER_object_whole(ncdp), STEP_ASG, g_write_nc_ret, GH_COLL, GH_IO, GH_LIVE)
/* C03 / C10 */
__CPROVER_ensures(IMPLIES(spec_pos(ST_BEGINS) >= 0, ((NC*)ncdp)->v_align == SPEC_V(IN_env_v, IN_v_align) && ((NC*)ncdp)->r_align == SPEC_V(IN_env_r, IN_r_align))) /*@C10_alignment_precedence_hint_over_argument_over_default*/
__CPROVER_ensures(IMPLIES(spec_pos(ST_BEGINS) >= 0, ((NC*)ncdp)->h_align >= 4 && ((NC*)ncdp)->h_align % 4 == 0 && ((NC*)ncdp)->r_align % 4 == 0 && ((NC*)ncdp)->v_align % 4 == 0)) /*@C03_alignments_in_force_are_multiples_of_4*/
__CPROVER_ensures(IMPLIES(spec_pos(ST_BEGINS) >= 0, ((NC*)ncdp)->h_minfree == h_minfree && ((NC*)ncdp)->v_minfree == v_minfree)) /*@C03_free_space_arguments_in_force*/
/* C05 / C15 */
__CPROVER_ensures(IMPLIES(spec_pos(ST_WRITE_NC) >= 0, ((NC*)ncdp)->vars.num_rec_vars == spec_count_rec((NC*)ncdp))) /*@C05_record_variable_count_recomputed*/
/* C06 */
__CPROVER_ensures(IMPLIES(spec_pos(ST_MOVE_FIX) >= 0, spec_pos(ST_MOVE_REC) >= 0 && spec_pos(ST_MOVE_REC) < spec_pos(ST_MOVE_FIX))) /*@C06_records_moved_before_fixed_variables*/
__CPROVER_ensures(IMPLIES(spec_pos(ST_MOVE_REC) >= 0, spec_pos(ST_WRITE_NC) < 0 || spec_pos(ST_MOVE_REC) < spec_pos(ST_WRITE_NC))) /*@C06_data_moved_before_header_written*/
__CPROVER_ensures(IMPLIES(spec_pos(ST_MOVE_FIX) >= 0, spec_pos(ST_WRITE_NC) < 0 || spec_pos(ST_MOVE_FIX) < spec_pos(ST_WRITE_NC))) /*@C06_fixed_moved_before_header_written*/
__CPROVER_ensures(IMPLIES(spec_pos(ST_FILL) >= 0, spec_pos(ST_WRITE_NC) >= 0 && spec_pos(ST_WRITE_NC) < spec_pos(ST_FILL))) /*@C06_fill_after_header_and_moves*/
__CPROVER_ensures(IMPLIES(!IN_old, spec_pos(ST_MOVE_REC) < 0 && spec_pos(ST_MOVE_FIX) < 0)) /*@C06_new_file_moves_nothing*/
/* C14 */
__CPROVER_ensures(IMPLIES(spec_pos(ST_WRITE_NC) >= 0, !(((NC*)ncdp)->flags & (NC_MODE_DEF | NC_MODE_CREATE)) && ((NC*)ncdp)->old == NULL)) /*@C14_define_mode_left*/
/* C11 */
__CPROVER_ensures(IMPLIES(spec_pos(ST_WRITE_NC) >= 0 && g_write_nc_ret != NC_NOERR, __CPROVER_return_value != NC_NOERR)) /*@C11_header_write_error_returned*/
;

static NC nc, oldnc; static NC_var var[NVARS]; static NC_var *vp[NVARS]; static MPI_Offset shp[NVARS][1];
void harness(void)
{
    ghost_setup(0);
    IN_env_h = nondet_ll(); IN_env_v = nondet_ll(); IN_env_r = nondet_ll(); IN_v_align = nondet_ll(); IN_r_align = nondet_ll(); IN_flags = nondet_int(); IN_old = nondet_bool();
    nc.env_h_align = IN_env_h; nc.env_v_align = IN_env_v; nc.env_r_align = IN_env_r; nc.flags = IN_flags | NC_MODE_DEF; nc.safe_mode = 0;
    nc.nprocs = g_nprocs; nc.rank = g_rank; nc.mpiinfo = MPI_INFO_NULL; nc.comm = MPI_COMM_WORLD;
    int nrec = 0;
    for (int i = 0; i < NVARS; i++) { IN_isrec[i] = nondet_bool(); shp[i][0] = IN_isrec[i] ? NC_UNLIMITED : 10; var[i].shape = shp[i]; var[i].ndims = 1; vp[i] = &var[i]; nrec += IN_isrec[i]; }
    nc.vars.ndefined = NVARS; nc.vars.value = vp; nc.vars.num_rec_vars = nondet_int();   /* possibly stale */
    __CPROVER_assume(nc.vars.num_rec_vars >= 0 && nc.vars.num_rec_vars <= NVARS);
    nc.begin_var = nondet_ll(); nc.begin_rec = nondet_ll(); nc.recsize = nondet_ll();
    oldnc.begin_var = nondet_ll(); oldnc.begin_rec = nondet_ll(); oldnc.recsize = nondet_ll(); oldnc.vars.ndefined = nondet_int();
    __CPROVER_assume(oldnc.vars.ndefined >= 0 && oldnc.vars.ndefined <= NVARS);
    nc.old = IN_old ? &oldnc : NULL; if (IN_old) nc.flags &= ~NC_MODE_CREATE;
    g_step_n = 0;
    int r = ncmpio__enddef(&nc, nondet_ll(), IN_v_align, nondet_ll(), IN_r_align);
    CANARY(r == NC_NOERR && g_step_n >= 3, "completed");
    CANARY(spec_pos(ST_MOVE_FIX) >= 0, "moved_both"); CANARY(spec_pos(ST_MOVE_REC) >= 0 && spec_pos(ST_MOVE_FIX) < 0, "moved_records_only");
    CANARY(r != NC_NOERR, "error");
}
