/* C08 (safe mode): check_consistency_put (static, regenerated src/dispatchers/attr_getput.c): the
 * sequence of collective calls is a function of the AGREED (broadcast) values only, never of this
 * rank's own arguments, and every rank returns the agreed minimum error. */
#include <config.h>
#include <stdlib.h>
#include <string.h>
#include <pnetcdf.h>
#include <dispatch.h>
#include "ghost.h"
#define AG(sym) FL(attr_getput, sym)
int IN_varid, IN_xtype, IN_err; long long IN_nelems;
/* collectives, in order: 0 Allreduce(err) 1 Bcast(name_len) 2 Bcast(name) 3 Bcast(varid) 4 Bcast(xtype) 5 Bcast(nelems) [6 Bcast(values)] last Allreduce(err) */
#define AGREED_ERR0 (g_nprocs > 1 ? g_agreed_ll[0] : (long long)IN_err)
#define AGREED_NELEMS g_agreed_ll[5]

int AG(check_consistency_put)(MPI_Comm comm, int varid, const char *name, nc_type xtype, MPI_Offset nelems, const void *buf, MPI_Datatype itype, int err)
__CPROVER_requires(g_coll_n == 0 && err <= 0 && nelems >= 0 && nelems <= 2 && varid == IN_varid && xtype == IN_xtype && nelems == IN_nelems && err == IN_err)
__CPROVER_assigns(GH_COLL)
__CPROVER_ensures(IMPLIES(AGREED_ERR0 != NC_NOERR, g_coll_n == 1 && __CPROVER_return_value == (int)AGREED_ERR0)) /*@C08_agreed_error_returned_by_everyone_after_one_collective*/
__CPROVER_ensures(IMPLIES(AGREED_ERR0 == NC_NOERR, g_coll_n == 7 + ((AGREED_NELEMS > 0) ? 1 : 0))) /*@C08_collective_count_depends_only_on_agreed_values*/
__CPROVER_ensures(IMPLIES(AGREED_ERR0 == NC_NOERR && g_nprocs > 1, __CPROVER_return_value == (int)g_agreed_ll[g_coll_n - 1] || __CPROVER_return_value > (int)g_agreed_ll[g_coll_n - 1])) /*@C08_final_code_not_below_agreed_minimum*/
__CPROVER_ensures(IMPLIES(AGREED_ERR0 == NC_NOERR && g_nprocs > 1 && g_agreed_ll[g_coll_n - 1] != NC_NOERR, __CPROVER_return_value == (int)g_agreed_ll[g_coll_n - 1])) /*@C08_disagreement_reported_with_same_code_on_every_rank*/
;

static char nm[] = "ab"; static int vals[2];
void harness(void)
{
    ghost_setup(0);
    nm[0] = 'a'; nm[1] = 'b'; nm[2] = 0;
    IN_varid = nondet_int(); IN_xtype = nondet_int(); IN_err = nondet_int(); IN_nelems = nondet_ll();
    __CPROVER_assume(IN_err <= 0 && IN_nelems >= 0 && IN_nelems <= 2);
    __CPROVER_assume(g_agreed_ll[1] >= 1 && g_agreed_ll[1] <= 4);                 /* instance: root's name has at most 3 characters */
    __CPROVER_assume(g_agreed_ll[5] >= 0 && g_agreed_ll[5] <= 2);                 /* instance: root's attribute has at most 2 elements */
    __CPROVER_assume(g_agreed_ll[0] <= 0);
    int r = AG(check_consistency_put)(MPI_COMM_WORLD, IN_varid, nm, IN_xtype, IN_nelems, vals, MPI_INT, IN_err);
    CANARY(r == NC_NOERR && g_coll_n == 8, "consistent_with_values"); CANARY(r == NC_NOERR && g_coll_n == 7, "consistent_empty");
    CANARY(r == NC_EMULTIDEFINE_ATTR_LEN, "length_disagreement"); CANARY(g_coll_n == 1, "early_agreed_error");
}
