/* C06: data movement at enddef after a redefinition (src/drivers/ncmpio/ncmpio_enddef.c, static
 * functions): move_record_vars and move_fixed_vars issue their block moves from the tail, with the
 * source computed from the OLD layout and the destination from the NEW one; move_file_block is
 * replaced by a contract that records each (to, from, length). */
#include <config.h>
#include <stdlib.h>
#include <pnetcdf.h>
#include <dispatch.h>
#include <ncmpio_NC.h>
#include "vh.h"
#ifndef NRECS
#define NRECS 3
#endif
#ifndef NVARS
#define NVARS 3
#endif
#define ED(sym) FL(ncmpio_enddef, sym)
#define MV_MAX 6
int g_mv_n; long long g_mv_to[MV_MAX], g_mv_from[MV_MAX], g_mv_len[MV_MAX]; int g_mv_ret[MV_MAX];
long long IN_new_recsize, IN_old_recsize, IN_new_off, IN_old_off;

#ifndef H_block   /* contract used at the call sites of the two callers below */
int ED(move_file_block)(NC *ncp, MPI_Offset to, MPI_Offset from, MPI_Offset nbytes)
__CPROVER_requires(g_mv_n >= 0 && g_mv_n < MV_MAX)
__CPROVER_requires(to >= from && nbytes >= 0) /*@moves_only_towards_higher_offsets*/
__CPROVER_assigns(g_mv_n, __CPROVER_object_whole(g_mv_to), __CPROVER_object_whole(g_mv_from), __CPROVER_object_whole(g_mv_len), __CPROVER_object_whole(g_mv_ret))
__CPROVER_ensures(g_mv_n == __CPROVER_old(g_mv_n) + 1 && g_mv_to[__CPROVER_old(g_mv_n)] == to && g_mv_from[__CPROVER_old(g_mv_n)] == from &&
                  g_mv_len[__CPROVER_old(g_mv_n)] == nbytes && g_mv_ret[__CPROVER_old(g_mv_n)] == __CPROVER_return_value)
__CPROVER_ensures(IMPLIES(__CPROVER_old(g_mv_n) > 0, g_mv_to[0] == __CPROVER_old(g_mv_to[0]) && g_mv_from[0] == __CPROVER_old(g_mv_from[0]) && g_mv_len[0] == __CPROVER_old(g_mv_len[0]) && g_mv_ret[0] == __CPROVER_old(g_mv_ret[0])))
__CPROVER_ensures(IMPLIES(__CPROVER_old(g_mv_n) > 1, g_mv_to[1] == __CPROVER_old(g_mv_to[1]) && g_mv_from[1] == __CPROVER_old(g_mv_from[1]) && g_mv_len[1] == __CPROVER_old(g_mv_len[1]) && g_mv_ret[1] == __CPROVER_old(g_mv_ret[1])))
__CPROVER_ensures(IMPLIES(__CPROVER_old(g_mv_n) > 2, g_mv_to[2] == __CPROVER_old(g_mv_to[2]) && g_mv_from[2] == __CPROVER_old(g_mv_from[2]) && g_mv_len[2] == __CPROVER_old(g_mv_len[2]) && g_mv_ret[2] == __CPROVER_old(g_mv_ret[2])))
;

#endif
/* k-th move of a record-by-record relocation moves record NRECS-1-k */
static inline int spec_rec_moves_ok(void)
{
    for (int k = 0; k < MV_MAX; k++) if (k < g_mv_n) {
        long long r = NRECS - 1 - k;
        if (g_mv_to[k] != IN_new_off + r * IN_new_recsize || g_mv_from[k] != IN_old_off + r * IN_old_recsize || g_mv_len[k] != IN_old_recsize) return 0;
        if (k < g_mv_n - 1 && g_mv_ret[k] != NC_NOERR) return 0;      /* stops at the first failure */
    }
    return 1;
}
int ED(move_record_vars)(NC *ncp, NC *old)
__CPROVER_requires(ncp->numrecs == NRECS && g_mv_n == 0 && ncp->recsize >= old->recsize && old->recsize >= 0 && ncp->recsize < ((long long)1 << 40) &&
                   ncp->begin_rec >= old->begin_rec && old->begin_rec >= 0 && ncp->begin_rec < ((long long)1 << 40))
__CPROVER_requires(ncp->recsize == IN_new_recsize && old->recsize == IN_old_recsize && ncp->begin_rec == IN_new_off && old->begin_rec == IN_old_off)
__CPROVER_assigns(g_mv_n, __CPROVER_object_whole(g_mv_to), __CPROVER_object_whole(g_mv_from), __CPROVER_object_whole(g_mv_len), __CPROVER_object_whole(g_mv_ret))
__CPROVER_ensures(IMPLIES(IN_new_recsize == IN_old_recsize && IN_new_recsize > 0,
      g_mv_n == 1 && g_mv_to[0] == IN_new_off && g_mv_from[0] == IN_old_off && g_mv_len[0] == IN_new_recsize * NRECS)) /*@same_record_size_moves_whole_section_once*/
__CPROVER_ensures(IMPLIES(IN_new_recsize == 0, g_mv_n == 0)) /*@no_record_variables_nothing_moved*/
__CPROVER_ensures(IMPLIES(IN_new_recsize > IN_old_recsize, spec_rec_moves_ok())) /*@record_by_record_from_the_last_old_source_new_destination*/
__CPROVER_ensures(IMPLIES(IN_new_recsize > IN_old_recsize && __CPROVER_return_value == NC_NOERR, g_mv_n == NRECS)) /*@every_record_moved*/
__CPROVER_ensures(IMPLIES(g_mv_n > 0 && g_mv_ret[g_mv_n - 1] != NC_NOERR, __CPROVER_return_value != NC_NOERR)) /*@C11_move_failure_returned*/
;

/* fixed-size variables: last to first, only those whose offset grew, whole length */
long long IN_oldbeg[NVARS], IN_newbeg[NVARS], IN_len[NVARS]; _Bool IN_isrec[NVARS];
static inline int spec_fix_moves_ok(void)
{
    int k = 0;
    for (int i = NVARS - 1; i >= 0; i--) {
        if (IN_isrec[i] || !(IN_newbeg[i] > IN_oldbeg[i])) continue;
        if (k >= g_mv_n) return 0;
        if (g_mv_to[k] != IN_newbeg[i] || g_mv_from[k] != IN_oldbeg[i] || g_mv_len[k] != IN_len[i]) return 0;
        k++;
    }
    return k == g_mv_n;
}
int ED(move_fixed_vars)(NC *ncp, NC *old)
__CPROVER_requires(old->vars.ndefined == NVARS && g_mv_n == 0)
__CPROVER_assigns(g_mv_n, __CPROVER_object_whole(g_mv_to), __CPROVER_object_whole(g_mv_from), __CPROVER_object_whole(g_mv_len), __CPROVER_object_whole(g_mv_ret))
__CPROVER_ensures(spec_fix_moves_ok()) /*@fixed_variables_moved_last_to_first_only_when_offset_grew*/
__CPROVER_ensures(IMPLIES(g_mv_n > 0 && (g_mv_ret[0] != NC_NOERR || (g_mv_n > 1 && g_mv_ret[1] != NC_NOERR) || (g_mv_n > 2 && g_mv_ret[2] != NC_NOERR)), __CPROVER_return_value != NC_NOERR)) /*@C11_move_failure_returned*/
;

static NC nc, oldnc; static NC_var nv[NVARS], ov[NVARS]; static NC_var *nvp[NVARS], *ovp[NVARS]; static MPI_Offset shp[NVARS][1];
#ifdef H_rec
void harness(void)
{
    IN_new_recsize = nondet_ll(); IN_old_recsize = nondet_ll(); IN_new_off = nondet_ll(); IN_old_off = nondet_ll();
    nc.numrecs = NRECS; nc.recsize = IN_new_recsize; oldnc.recsize = IN_old_recsize; nc.begin_rec = IN_new_off; oldnc.begin_rec = IN_old_off;
    g_mv_n = 0;
    int r = ED(move_record_vars)(&nc, &oldnc);
    CANARY(r == NC_NOERR && g_mv_n == NRECS, "record_by_record"); CANARY(r == NC_NOERR && g_mv_n == 1, "whole_section"); CANARY(r != NC_NOERR, "failed");
}
#endif
#ifdef H_fix
void harness(void)
{
    for (int i = 0; i < NVARS; i++) {
        IN_oldbeg[i] = nondet_ll(); IN_newbeg[i] = nondet_ll(); IN_len[i] = nondet_ll(); IN_isrec[i] = nondet_bool();
        __CPROVER_assume(IN_oldbeg[i] >= 0 && IN_newbeg[i] >= IN_oldbeg[i] && IN_len[i] >= 0);
        shp[i][0] = IN_isrec[i] ? NC_UNLIMITED : 4; ov[i].shape = shp[i]; nv[i].shape = shp[i]; ov[i].ndims = nv[i].ndims = 1;
        ov[i].begin = IN_oldbeg[i]; nv[i].begin = IN_newbeg[i]; nv[i].len = IN_len[i]; ov[i].len = IN_len[i]; nvp[i] = &nv[i]; ovp[i] = &ov[i];
    }
    nc.vars.ndefined = NVARS; nc.vars.value = nvp; oldnc.vars.ndefined = NVARS; oldnc.vars.value = ovp; g_mv_n = 0;
    int r = ED(move_fixed_vars)(&nc, &oldnc);
    CANARY(r == NC_NOERR && g_mv_n == 2, "two_moved"); CANARY(r == NC_NOERR && g_mv_n == 0, "nothing_moved"); CANARY(r != NC_NOERR, "failed");
}
#endif

#ifdef H_block
/* ---- move_file_block itself: one round (nbytes below nprocs * 64 MiB), NPROCS and RANK enumerated.
 * Each process moves its chunk of the block: reads [from + r*chunk, +len_r) and writes the bytes it
 * read at exactly the same position shifted by (to - from). ---- */
#include "ghost.h"
#ifndef NPROCS
#define NPROCS 3
#endif
#ifndef RANK
#define RANK 1
#endif
long long IN_to, IN_from, IN_nbytes;
#define CHUNK(n) ((n) / NPROCS + (((n) % NPROCS) ? 1 : 0))
#define CLAMP(x, lo, hi) ((x) < (lo) ? (lo) : (x) > (hi) ? (hi) : (x))
#define LEN_R(n) CLAMP((n) - (long long)RANK * CHUNK(n), 0, CHUNK(n))
#undef ED
#define ED(sym) FL(ncmpio_enddef, sym)
int ED(move_file_block)(NC *ncp, MPI_Offset to, MPI_Offset from, MPI_Offset nbytes)
__CPROVER_requires(ncp->nprocs == NPROCS && ncp->rank == RANK && g_nprocs == NPROCS && g_rank == RANK && to >= from && from >= 0 && to < ((long long)1 << 40) && nbytes >= 0 && nbytes <= 4096)
__CPROVER_requires(ncp->put_size >= 0 && ncp->put_size < ((long long)1 << 61) && ncp->get_size >= 0 && ncp->get_size < ((long long)1 << 61))
__CPROVER_requires(g_io_n == 0 && g_coll_n == 0 && g_io_failed == 0 && to == IN_to && from == IN_from && nbytes == IN_nbytes)
__CPROVER_assigns(ncp->put_size, ncp->get_size, GHOST_ASSIGNS)
__CPROVER_ensures(IMPLIES(IN_nbytes > 0, g_io_n >= 1 && g_io_kind[0] == IO_READ_AT_ALL && g_io_off[0] == IN_from + (long long)RANK * CHUNK(IN_nbytes) && g_io_count[0] == LEN_R(IN_nbytes))) /*@reads_its_chunk_of_the_source_block*/
__CPROVER_ensures(IMPLIES(IN_nbytes > 0 && __CPROVER_return_value == NC_NOERR, g_io_n == 2 && g_io_off[1] == g_io_off[0] + (IN_to - IN_from) && g_io_count[1] == g_io_count[0])) /*@writes_what_it_read_shifted_by_to_minus_from*/
__CPROVER_ensures(IMPLIES(IN_nbytes == 0, g_io_n == 0)) /*@empty_block_moves_nothing*/
__CPROVER_ensures(IMPLIES(g_io_failed, __CPROVER_return_value != NC_NOERR)) /*@C11_io_failure_reported*/
__CPROVER_ensures(IMPLIES(IN_nbytes > 0 && NPROCS > 1, g_coll_n >= 3 && g_coll_kind[0] == COLL_FILE_SET_VIEW && g_coll_kind[1] == COLL_FILE_READ_AT_ALL && g_coll_kind[2] == COLL_ALLREDUCE)) /*@C08_read_then_agree_before_write*/
;
void harness(void)
{
    ghost_setup(1);
    g_nprocs = NPROCS; g_rank = RANK; g_full_reads = 1;
    IN_to = nondet_ll(); IN_from = nondet_ll(); IN_nbytes = nondet_ll();
    nc.nprocs = NPROCS; nc.rank = RANK; nc.put_size = 0; nc.get_size = 0; nc.collective_fh = MPI_FILE_NULL; nc.comm = MPI_COMM_WORLD;
    int r = ED(move_file_block)(&nc, IN_to, IN_from, IN_nbytes);
    CANARY(r == NC_NOERR && g_io_n == 2 && g_io_count[1] > 0, "moved"); CANARY(r == NC_NOERR && g_io_n == 2 && g_io_count[1] == 0, "idle_rank");
    CANARY(r != NC_NOERR && g_io_failed, "failure_reported");
}
#endif
