/* C12: burst-buffer driver, nonblocking request table (src/drivers/ncbbio/ncbbio_nonblocking.c,
 * compiled with -DENABLE_BURST_BUFFER).  Cancelling a pending put invalidates exactly the log entries
 * that request generated ([entrystart, entryend)) and no other entry - a write logged after it must
 * still be replayed at the next flush. */
#include <config.h>
#include <stdlib.h>
#include <pnetcdf.h>
#include <dispatch.h>
#include <ncbbio_driver.h>
#include "vh.h"
#define NENT 5
#define NREQ 2
int G; int old_valid[NENT]; int IN_reqid, IN_start, IN_end; _Bool IN_ready, IN_reqvalid;
int g_removed;

int ncbbio_put_list_remove(NC_bb *ncbbp, int reqid)
__CPROVER_assigns(g_removed)
__CPROVER_ensures(g_removed == reqid)
;
int ncbbio_cancel_put_req(NC_bb *ncbbp, int reqid, int *stat)
__CPROVER_requires(G >= 0 && G < NENT && ncbbp->putlist.nalloc == NREQ && reqid == IN_reqid)
__CPROVER_requires(IMPLIES(reqid >= 0 && reqid < NREQ, ncbbp->putlist.reqs[reqid].entrystart == IN_start && ncbbp->putlist.reqs[reqid].entryend == IN_end &&
                   0 <= IN_start && IN_start <= IN_end && IN_end <= NENT - 1 && (ncbbp->putlist.reqs[reqid].ready != 0) == IN_ready && (ncbbp->putlist.reqs[reqid].valid != 0) == IN_reqvalid))
__CPROVER_assigns(*stat, g_removed, __CPROVER_object_whole(ncbbp->metaidx.entries))
__CPROVER_ensures(IMPLIES(IN_reqid < 0 || IN_reqid >= NREQ || !IN_reqvalid, *stat == NC_EINVAL_REQUEST && ncbbp->metaidx.entries[G].valid == old_valid[G] && g_removed == -1)) /*@unknown_request_reported_nothing_touched*/
__CPROVER_ensures(IMPLIES(IN_reqid >= 0 && IN_reqid < NREQ && IN_reqvalid && IN_ready, *stat == NC_EFLUSHED && ncbbp->metaidx.entries[G].valid == old_valid[G])) /*@already_flushed_cannot_be_cancelled*/
__CPROVER_ensures(IMPLIES(IN_reqid >= 0 && IN_reqid < NREQ && IN_reqvalid && !IN_ready,
      *stat == NC_NOERR && ncbbp->metaidx.entries[G].valid == ((G >= IN_start && G < IN_end) ? 0 : old_valid[G]))) /*@exactly_the_entries_of_the_cancelled_request_are_dropped*/
__CPROVER_ensures(IMPLIES(IN_reqid >= 0 && IN_reqid < NREQ && IN_reqvalid, g_removed == IN_reqid)) /*@request_slot_recycled*/
;

static NC_bb bb; static NC_bb_metadataptr ents[NENT]; static NC_bb_put_req reqs[NREQ];
void harness(void)
{
    G = nondet_int(); IN_reqid = nondet_int(); IN_start = nondet_int(); IN_end = nondet_int(); IN_ready = nondet_bool(); IN_reqvalid = nondet_bool();
    __CPROVER_assume(G >= 0 && G < NENT && 0 <= IN_start && IN_start <= IN_end && IN_end <= NENT - 1);
    for (int i = 0; i < NENT; i++) { ents[i].valid = nondet_int(); old_valid[i] = ents[i].valid; ents[i].reqid = nondet_int(); ents[i].ptr = NULL; }
    for (int i = 0; i < NREQ; i++) { reqs[i].valid = nondet_bool(); reqs[i].ready = nondet_bool(); reqs[i].entrystart = 0; reqs[i].entryend = 0; reqs[i].status = 0; }
    if (IN_reqid >= 0 && IN_reqid < NREQ) { reqs[IN_reqid].valid = IN_reqvalid; reqs[IN_reqid].ready = IN_ready; reqs[IN_reqid].entrystart = IN_start; reqs[IN_reqid].entryend = IN_end; }
    bb.putlist.reqs = reqs; bb.putlist.nalloc = NREQ; bb.putlist.nused = 0; bb.putlist.ids = NULL; bb.metaidx.entries = ents; bb.metaidx.nused = NENT; bb.metaidx.nalloc = NENT;
    g_removed = -1;
    int st = 12345;
    int r = ncbbio_cancel_put_req(&bb, IN_reqid, &st);
    CANARY(st == NC_NOERR && IN_end > IN_start, "cancelled"); CANARY(st == NC_EFLUSHED, "too_late"); CANARY(st == NC_EINVAL_REQUEST, "unknown");
}
