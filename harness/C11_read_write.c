/* ncmpio_read_write (src/drivers/ncmpio/ncmpio_file_io.c) enforced against the contract that
 * put_varm / get_varm / wait_getput use for it (getput_callees.h): an injected MPI-IO failure is
 * reported (C11), exactly one collective call in collective mode whatever the local state (C08),
 * statistics monotone, the element count handed on, datatypes created here released (C17). */
#include <config.h>
#include <stdlib.h>
#include <pnetcdf.h>
#include <dispatch.h>
#include <ncmpio_NC.h>
#include "ghost.h"
int IN_flags, IN_format, IN_rank, IN_nprocs, IN_num_rec_vars; long long IN_numrecs, IN_new_numrecs;
#include "sync_contracts.h"
long long g_decoded_nbytes; int g_decoded_contig;
#include "getput_callees.h"
int IN_rw, IN_coll, IN_contig; long long IN_count, IN_ibuf;
static NC nc; static char dbuf[64];
void harness(void)
{
    ghost_setup(1);
    IN_rw = nondet_int(); IN_coll = nondet_int(); IN_contig = nondet_int(); IN_count = nondet_ll(); IN_ibuf = nondet_ll();
    __CPROVER_assume((IN_rw == NC_REQ_RD || IN_rw == NC_REQ_WR) && (IN_coll == NC_REQ_COLL || IN_coll == NC_REQ_INDEP) && (IN_contig == 0 || IN_contig == 1));
    __CPROVER_assume(IN_count >= 0 && IN_count <= 16 && IN_ibuf >= 0 && IN_ibuf < 1024);
    nc.rank = g_rank; nc.nprocs = g_nprocs; nc.put_size = 0; nc.get_size = 0; nc.ibuf_size = IN_ibuf;
    nc.collective_fh = MPI_FILE_NULL; nc.independent_fh = MPI_FILE_NULL;
    int r = ncmpio_read_write(&nc, IN_rw, IN_coll, nondet_ll(), IN_count, MPI_INT, dbuf, IN_contig);
    CANARY(r == NC_NOERR && g_io_n == 1, "transferred"); CANARY(r != NC_NOERR && g_io_failed, "failure_reported");
    CANARY(r == NC_NOERR && !IN_contig && IN_count > 0 && IN_count * 4 <= IN_ibuf, "packed_path");
}
