/* C03 ("nothing of a clobbered predecessor file survives"): the clobber phase of ncmpio_create
 * (src/drivers/ncmpio/ncmpio_create.c).  On the root process, with NC_CLOBBER an existing regular file is
 * unlinked and any other existing file truncated to zero - under the name the existence test used (the
 * path with the file-system prefix "ufs:" etc. removed) - before MPI_File_open creates the file under
 * the path as given; with NC_NOCLOBBER an existing file is refused and left alone; a failed removal is
 * reported and nothing is opened.
 * POSIX (lstat/unlink/truncate) and the MPI calls of this phase are harness stubs that record their
 * arguments.  Instance: MPI_File_open fails, which ends the function right after the phase under
 * contract (the rest of ncmpio_create - hints, NC object - is outside this check). */
#include <config.h>
#include <stdlib.h>
#include <string.h>
#include <errno.h>
#include <sys/types.h>
#include <sys/stat.h>
#include <unistd.h>
#include <pnetcdf.h>
#include <dispatch.h>
#include <ncmpio_NC.h>
#include <ncmpio_driver.h>
#include "vh.h"
extern int __CPROVER_errno;
static char g_path[8] = "ufs:/a";
int IN_prefix, IN_cmode, IN_nprocs; _Bool IN_exists, IN_regular, IN_open_fails; int g_getinfo_calls, g_fclose_calls, g_fh_open; int IN_unlink_errno, IN_trunc_errno;
int g_lstat_calls, g_unlink_calls, g_trunc_calls, g_open_calls, g_removed_before_open, g_open_amode; const char *g_lstat_name, *g_unlink_name, *g_trunc_name, *g_open_name; long long g_trunc_len;

char *ncmpii_remove_file_system_type_prefix(const char *filename) { return (char *)filename + IN_prefix; }   /* trusted: own string function of utils.c */
int ncmpi_inq_default_format(int *formatp) { *formatp = NC_FORMAT_CLASSIC; return NC_NOERR; }
int MPI_Comm_rank(MPI_Comm comm, int *rank) { *rank = 0; return MPI_SUCCESS; }
int MPI_Comm_size(MPI_Comm comm, int *size) { *size = IN_nprocs; return MPI_SUCCESS; }
int MPI_Bcast(void *buffer, int count, MPI_Datatype datatype, int root, MPI_Comm comm) { return MPI_SUCCESS; }   /* this process is the root */
int MPI_Error_class(int errorcode, int *errorclass) { *errorclass = MPI_ERR_OTHER; return MPI_SUCCESS; }
int MPI_Error_string(int errorcode, char *string, int *resultlen) { string[0] = 0; *resultlen = 0; return MPI_SUCCESS; }
int lstat(const char *name, struct stat *st)
{
    g_lstat_calls++; g_lstat_name = name;
    if (!IN_exists) { errno = ENOENT; return -1; }
    st->st_mode = IN_regular ? S_IFREG : S_IFLNK;
    return 0;
}
int unlink(const char *name)
{
    g_unlink_calls++; g_unlink_name = name;
    if (IN_unlink_errno) { errno = IN_unlink_errno; return -1; }
    return 0;
}
int truncate(const char *name, off_t length)
{
    g_trunc_calls++; g_trunc_name = name; g_trunc_len = length;
    if (IN_trunc_errno) { errno = IN_trunc_errno; return -1; }
    return 0;
}
int MPI_File_open(MPI_Comm comm, const char *filename, int amode, MPI_Info info, MPI_File *fh)
{
    g_open_calls++; g_open_name = filename; g_open_amode = amode; g_removed_before_open = g_unlink_calls + g_trunc_calls;
    if (IN_open_fails) return MPI_ERR_OTHER;   /* instance A: the create itself fails; ncmpio_create returns right after the phase under contract */
    *fh = (MPI_File)malloc(1); g_fh_open++;
    return MPI_SUCCESS;
}
/* instance B: the file is created, the next MPI call fails - the function ends there too */
int MPI_File_get_info(MPI_File fh, MPI_Info *info) { g_getinfo_calls++; return MPI_ERR_OTHER; }
int MPI_File_close(MPI_File *fh) { g_fclose_calls++; g_fh_open--; free(*fh); *fh = MPI_FILE_NULL; return MPI_SUCCESS; }
#define STRIPPED (g_path + IN_prefix)
#define NOCLOBBER ((IN_cmode & NC_NOCLOBBER) != 0)
#define BADMODE ((IN_cmode & (NC_DISKLESS | NC_MMAP)) != 0)

int ncmpio_create(MPI_Comm comm, const char *path, int cmode, int ncid, MPI_Info user_info, void **ncpp)
__CPROVER_requires(path == g_path && cmode == IN_cmode && (IN_prefix == 0 || IN_prefix == 4) && g_lstat_calls == 0 && g_unlink_calls == 0 && g_trunc_calls == 0 && g_open_calls == 0 && g_fh_open == 0)
__CPROVER_assigns(*ncpp, g_lstat_calls, g_unlink_calls, g_trunc_calls, g_open_calls, g_removed_before_open, g_open_amode, g_lstat_name, g_unlink_name, g_trunc_name, g_open_name, g_trunc_len, __CPROVER_errno, g_getinfo_calls, g_fclose_calls, g_fh_open)
__CPROVER_ensures(IMPLIES(BADMODE, __CPROVER_return_value == NC_EINVAL_CMODE && g_lstat_calls == 0 && g_open_calls == 0 && g_unlink_calls == 0 && g_trunc_calls == 0)) /*@unsupported_mode_touches_nothing*/
__CPROVER_ensures(IMPLIES(!BADMODE, g_lstat_calls == 1 && g_lstat_name == STRIPPED)) /*@existence_probed_under_the_name_without_file_system_prefix*/
__CPROVER_ensures(IMPLIES(!BADMODE && NOCLOBBER && IN_exists, __CPROVER_return_value == NC_EEXIST && g_open_calls == 0 && g_unlink_calls == 0 && g_trunc_calls == 0)) /*@noclobber_refuses_and_leaves_an_existing_file_alone*/
__CPROVER_ensures(IMPLIES(!BADMODE && !NOCLOBBER && IN_exists && IN_regular, g_unlink_calls == 1 && g_unlink_name == STRIPPED && g_trunc_calls == 0)) /*@C03_existing_regular_file_removed_under_the_probed_name*/
__CPROVER_ensures(IMPLIES(!BADMODE && !NOCLOBBER && IN_exists && !IN_regular, g_trunc_calls == 1 && g_trunc_name == STRIPPED && g_trunc_len == 0 && g_unlink_calls == 0)) /*@C03_existing_link_or_special_file_truncated_to_zero_under_the_probed_name*/
__CPROVER_ensures(IMPLIES(!IN_exists || NOCLOBBER, g_unlink_calls == 0 && g_trunc_calls == 0)) /*@nothing_removed_otherwise*/
__CPROVER_ensures(IMPLIES(g_open_calls == 1, g_open_name == g_path && (g_open_amode & MPI_MODE_CREATE) && (g_open_amode & MPI_MODE_RDWR) && g_removed_before_open == g_unlink_calls + g_trunc_calls)) /*@file_created_under_the_path_as_given_after_the_predecessor_is_gone*/
__CPROVER_ensures(IMPLIES(!BADMODE && !NOCLOBBER && IN_exists && ((IN_regular && IN_unlink_errno != 0 && IN_unlink_errno != ENOENT) || (!IN_regular && IN_trunc_errno != 0 && IN_trunc_errno != ENOENT)),
                          __CPROVER_return_value == NC_EFILE && g_open_calls == 0)) /*@C11_failed_removal_reported_nothing_created*/
__CPROVER_ensures(__CPROVER_return_value != NC_NOERR && *ncpp == NULL) /*@no_file_object_without_a_file*/
__CPROVER_ensures(g_fh_open == 0) /*@C17_no_file_handle_kept_by_a_failed_create*/
;

void harness(void)
{
    IN_prefix = nondet_int(); IN_cmode = nondet_int(); IN_nprocs = nondet_int(); IN_exists = nondet_bool(); IN_regular = nondet_bool(); IN_unlink_errno = nondet_int(); IN_trunc_errno = nondet_int();
    __CPROVER_assume((IN_prefix == 0 || IN_prefix == 4) && (IN_nprocs == 1 || IN_nprocs == 2));
    __CPROVER_assume(IN_unlink_errno == 0 || IN_unlink_errno == ENOENT || IN_unlink_errno == EACCES || IN_unlink_errno == EBUSY);
    __CPROVER_assume(IN_trunc_errno == 0 || IN_trunc_errno == ENOENT || IN_trunc_errno == EACCES);
    g_lstat_calls = 0; g_unlink_calls = 0; g_trunc_calls = 0; g_open_calls = 0; errno = 0; g_getinfo_calls = 0; g_fclose_calls = 0; g_fh_open = 0; IN_open_fails = nondet_bool();
    void *ncp = (void *)1;
    int r = ncmpio_create(MPI_COMM_WORLD, g_path, IN_cmode, 0, MPI_INFO_NULL, &ncp);
    CANARY(g_unlink_calls == 1 && IN_prefix == 4, "prefixed_name_unlinked"); CANARY(g_trunc_calls == 1, "truncated"); CANARY(r == NC_EEXIST, "exists_refused"); CANARY(r == NC_EFILE, "removal_failed");
    CANARY(g_open_calls == 1 && g_unlink_calls == 0 && g_trunc_calls == 0, "fresh_create"); CANARY(g_getinfo_calls == 1, "created_then_failed");
}
