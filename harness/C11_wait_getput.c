/* wait_getput (static, src/drivers/ncmpio/ncmpio_wait.c): NQ sub-requests (enumerated); callees
 * calculate_access_range, qsort, req_aggregation, ncmpio_write_numrecs by contract.
 * C11: the aggregated I/O error is returned; C05: record count after the wait; C02: requests are handed
 * to the aggregation as "not interleaved" only if they are sorted and pairwise disjoint. */
#include <config.h>
#include <stdlib.h>
#include <pnetcdf.h>
#include <dispatch.h>
#include <ncmpio_NC.h>
#include "ghost.h"
int IN_flags, IN_format, IN_rank, IN_nprocs, IN_num_rec_vars; long long IN_numrecs, IN_new_numrecs;
#include "sync_contracts.h"
#ifndef NQ
#define NQ 2
#endif
#define WT(sym) FL(ncmpio_wait, sym)
int g_agg_ret, g_agg_calls; int IN_rw, IN_coll;

int WT(calculate_access_range)(const NC *ncp, const NC_var *varp, const MPI_Offset *start, const MPI_Offset *count, const MPI_Offset *stride, MPI_Offset *start_off, MPI_Offset *end_off)
__CPROVER_assigns(*start_off, *end_off)
__CPROVER_ensures(*start_off >= 0 && *end_off > *start_off)
;
void qsort(void *base, size_t nmemb, size_t size, int (*compar)(const void *, const void *))
__CPROVER_assigns(__CPROVER_object_whole(base))
__CPROVER_ensures(1)
;
static inline int spec_sorted_disjoint(const NC_req *reqs)
{
    for (int i = 1; i < NQ; i++) if (reqs[i].offset_start < reqs[i-1].offset_end) return 0;
    return 1;
}
int WT(req_aggregation)(NC *ncp, int num_reqs, NC_req *reqs, int rw_flag, int coll_indep, int interleaved)
__CPROVER_requires(num_reqs == NQ && IMPLIES(interleaved == 0, spec_sorted_disjoint(reqs))) /*@C02_not_interleaved_means_sorted_and_disjoint*/
__CPROVER_requires(g_agg_calls == 0)
__CPROVER_assigns(g_agg_ret, g_agg_calls, GH_COLL, GH_IO)
__CPROVER_ensures(g_agg_ret == __CPROVER_return_value && g_agg_calls == 1 && __CPROVER_return_value != NC_ERANGE)
__CPROVER_ensures(g_io_n >= __CPROVER_old(g_io_n) && g_io_n <= __CPROVER_old(g_io_n) + 4 && g_nwrites >= __CPROVER_old(g_nwrites) && g_nwrites <= __CPROVER_old(g_nwrites) + 4 &&
                  g_coll_n >= __CPROVER_old(g_coll_n) && g_coll_n <= __CPROVER_old(g_coll_n) + 8)
__CPROVER_ensures(IMPLIES(g_io_failed && !__CPROVER_old(g_io_failed), __CPROVER_return_value != NC_NOERR))
;

int WT(wait_getput)(NC *ncp, int num_reqs, NC_req *reqs, int rw_flag, int coll_indep, MPI_Offset newnumrecs)
__CPROVER_requires(num_reqs == NQ && WF_NC_BASIC(ncp) && WF_NC_STATS_LOW(ncp) && (rw_flag == NC_REQ_WR || rw_flag == NC_REQ_RD) && (coll_indep == NC_REQ_COLL || coll_indep == NC_REQ_INDEP))
__CPROVER_requires(newnumrecs >= 0 && g_agg_calls == 0 && g_io_n == 0 && g_coll_n == 0 && g_nwrites == 0 && g_io_failed == 0)
__CPROVER_assigns(__CPROVER_object_whole(reqs), ncp->numrecs, ncp->flags, ncp->put_size, g_agg_ret, g_agg_calls, GH_COLL, GH_IO)
__CPROVER_ensures(g_agg_calls == 1) /*@requests_handed_to_aggregation_once*/
__CPROVER_ensures(IMPLIES(g_agg_ret != NC_NOERR, __CPROVER_return_value != NC_NOERR)) /*@C11_aggregated_io_error_returned*/
__CPROVER_ensures(IMPLIES(g_io_failed, __CPROVER_return_value != NC_NOERR)) /*@C11_io_failure_reported*/
__CPROVER_ensures(ncp->numrecs >= __CPROVER_old(ncp->numrecs)) /*@C05_numrecs_never_decreases*/
__CPROVER_ensures(IMPLIES(rw_flag == NC_REQ_WR, ncp->numrecs >= newnumrecs)) /*@C05_numrecs_covers_completed_writes*/
__CPROVER_ensures(IMPLIES(rw_flag == NC_REQ_RD, ncp->numrecs == __CPROVER_old(ncp->numrecs))) /*@C05_reads_leave_numrecs*/
__CPROVER_ensures(IMPLIES(rw_flag == NC_REQ_WR && coll_indep == NC_REQ_INDEP && ncp->numrecs > __CPROVER_old(ncp->numrecs), (ncp->flags & NC_NDIRTY) != 0)) /*@C05_indep_growth_marks_dirty*/
;

static NC nc; static NC_var var; static NC_lead_req leads[NQ]; static NC_req reqs[NQ]; static MPI_Offset st[NQ][3];
void harness(void)
{
    ghost_setup(1);
    IN_flags = nondet_int(); IN_format = nondet_int(); IN_numrecs = nondet_ll(); IN_num_rec_vars = nondet_int(); IN_rw = nondet_int(); IN_coll = nondet_int(); IN_new_numrecs = nondet_ll();
    nc.flags = IN_flags; nc.format = IN_format; nc.numrecs = IN_numrecs; nc.vars.num_rec_vars = IN_num_rec_vars; nc.rank = g_rank; nc.nprocs = g_nprocs; nc.put_size = 0; nc.get_size = 0;
    var.ndims = 1; var.xsz = 4; var.begin = 64;
    for (int i = 0; i < NQ; i++) { leads[i].varp = &var; leads[i].flag = nondet_int(); reqs[i].lead_off = i; reqs[i].start = st[i]; }
    nc.put_lead_list = leads; nc.get_lead_list = leads;
    g_agg_calls = 0;
    int r = WT(wait_getput)(&nc, NQ, reqs, IN_rw, IN_coll, IN_new_numrecs);
    CANARY(r == NC_NOERR && nc.numrecs > IN_numrecs, "grew"); CANARY(r != NC_NOERR && g_agg_ret != NC_NOERR, "agg_error_returned");
    CANARY(r == NC_NOERR && g_nwrites > 0, "wrote");
}
