/* C10 / C01: flatten_subarray (static, ncmpio_intra_node.c) - a strided subarray request is turned into
 * the list of (file offset, length) runs that intra-node aggregation writes on behalf of the process.
 * The list must be exactly the runs the direct (non-aggregated) path would write: row-major order, one
 * run per row (or per element when the last stride is > 1), offset of element (i0,..) = begin +
 * sum_d (start[d] + i_d*stride[d]) * prod_{e>d} dimlen[e] * el_size.
 * Instance: NDIM dimensions with enumerated lengths DL0/DL1/DL2 (so that every product has a constant
 * factor), element size ELSZ; start, count (<= 3), stride (<= 4) symbolic; ghost index (G0,G1,G2). */
#include <config.h>
#include <stdlib.h>
#include <pnetcdf.h>
#include <dispatch.h>
#include <ncmpio_NC.h>
#include "vh.h"
#ifndef NDIM
#define NDIM 2
#endif
#ifndef ELSZ
#define ELSZ 4
#endif
#ifndef CMAX
#define CMAX 3
#endif
#ifndef SMAX
#define SMAX 4
#endif
#define DL0 7
#define DL1 5
#define DL2 6
#define IN_(sym) FL(ncmpio_intra_node, sym)
long long IN_begin, IN_start[3], IN_count[3], IN_stride[3]; int G0, G1, G2;
static const long long DL[3] = { DL0, DL1, DL2 };
/* row length in elements below dimension d */
#define BELOW(d) ((d) == NDIM - 1 ? 1 : (d) == NDIM - 2 ? DL[NDIM - 1] : DL[NDIM - 1] * DL[NDIM - 2])
#define LAST (NDIM - 1)
#define UNIT (IN_stride[LAST] == 1)
#define NSTRIDE (UNIT ? 1 : IN_count[LAST])
#define GL (UNIT ? 0 : (NDIM == 1 ? G0 : NDIM == 2 ? G1 : G2))
#define NPAIRS ((NDIM == 1 ? 1 : NDIM == 2 ? IN_count[0] : IN_count[0] * IN_count[1]) * NSTRIDE)
#define PIDX ((NDIM == 1 ? 0 : NDIM == 2 ? G0 * NSTRIDE : (G0 * IN_count[1] + G1) * NSTRIDE) + GL)
#define ELOFF (IN_begin + ((IN_start[0] + (NDIM == 1 ? GL : G0) * IN_stride[0]) * BELOW(0) + \
                           (NDIM >= 2 ? (IN_start[1] + (NDIM == 2 ? GL : G1) * IN_stride[1]) * BELOW(1) : 0) + \
                           (NDIM >= 3 ? (IN_start[2] + GL * IN_stride[2]) * BELOW(2) : 0)) * ELSZ)

int IN_(flatten_subarray)(int ndim, int el_size, MPI_Offset var_begin, const MPI_Offset *dimlen, const MPI_Offset *start, const MPI_Offset *count, const MPI_Offset *stride,
                          MPI_Aint *npairs, MPI_Aint *offsets, int *lengths)
__CPROVER_requires(ndim == NDIM && el_size == ELSZ && var_begin == IN_begin && IN_begin >= 0 && IN_begin < ((long long)1 << 40))
__CPROVER_requires(dimlen[0] == DL0 && (NDIM < 2 || dimlen[1] == DL1) && (NDIM < 3 || dimlen[2] == DL2))
__CPROVER_requires(start[0] == IN_start[0] && count[0] == IN_count[0] && stride[0] == IN_stride[0] && (NDIM < 2 || (start[1] == IN_start[1] && count[1] == IN_count[1] && stride[1] == IN_stride[1])) &&
                   (NDIM < 3 || (start[2] == IN_start[2] && count[2] == IN_count[2] && stride[2] == IN_stride[2])))
/* a valid request (checked by the dispatcher, C15): inside the variable, counts 1..3, strides 1..4 */
__CPROVER_requires(IN_count[0] >= 1 && IN_count[0] <= CMAX && IN_stride[0] >= 1 && IN_stride[0] <= SMAX && IN_start[0] >= 0 && IN_start[0] < DL0 && IN_start[0] + (IN_count[0] - 1) * IN_stride[0] < DL0)
__CPROVER_requires(NDIM < 2 || (IN_count[1] >= 1 && IN_count[1] <= CMAX && IN_stride[1] >= 1 && IN_stride[1] <= SMAX && IN_start[1] >= 0 && IN_start[1] < DL1 && IN_start[1] + (IN_count[1] - 1) * IN_stride[1] < DL1))
__CPROVER_requires(NDIM < 3 || (IN_count[2] >= 1 && IN_count[2] <= CMAX && IN_stride[2] >= 1 && IN_stride[2] <= SMAX && IN_start[2] >= 0 && IN_start[2] < DL2 && IN_start[2] + (IN_count[2] - 1) * IN_stride[2] < DL2))
__CPROVER_requires(G0 >= 0 && G0 < IN_count[0] && (NDIM < 2 || (G1 >= 0 && G1 < IN_count[1])) && (NDIM < 3 || (G2 >= 0 && G2 < IN_count[2])))
__CPROVER_assigns(*npairs, __CPROVER_object_whole(offsets), __CPROVER_object_whole(lengths))
__CPROVER_ensures(__CPROVER_return_value == NC_NOERR && *npairs == NPAIRS) /*@one_run_per_row_or_per_element_when_last_stride_above_one*/
__CPROVER_ensures(offsets[PIDX] == ELOFF) /*@run_offset_is_the_file_offset_of_its_first_element_row_major_order*/
__CPROVER_ensures(lengths[PIDX] == (UNIT ? IN_count[LAST] : 1) * ELSZ) /*@run_length_is_the_contiguous_row_or_one_element*/
;

void harness(void)
{
    static MPI_Offset dl[3] = { DL0, DL1, DL2 }, st[3], ct[3], sd[3];
    IN_begin = nondet_ll(); G0 = nondet_int(); G1 = nondet_int(); G2 = nondet_int();
    for (int d = 0; d < 3; d++) { IN_start[d] = nondet_ll(); IN_count[d] = nondet_ll(); IN_stride[d] = nondet_ll(); st[d] = IN_start[d]; ct[d] = IN_count[d]; sd[d] = IN_stride[d];
        __CPROVER_assume(IN_count[d] >= 1 && IN_count[d] <= CMAX && IN_stride[d] >= 1 && IN_stride[d] <= SMAX && IN_start[d] >= 0 && IN_start[d] < DL[d] && IN_start[d] + (IN_count[d] - 1) * IN_stride[d] < DL[d]); }
    __CPROVER_assume(IN_begin >= 0 && IN_begin < ((long long)1 << 40));
    __CPROVER_assume(G0 >= 0 && G0 < IN_count[0] && G1 >= 0 && G1 < IN_count[1] && G2 >= 0 && G2 < IN_count[2]);
    MPI_Aint np = -1; MPI_Aint *offs = malloc(27 * sizeof(MPI_Aint)); int *lens = malloc(27 * sizeof(int));
    int r = IN_(flatten_subarray)(NDIM, ELSZ, IN_begin, dl, st, ct, sd, &np, offs, lens);
    CANARY(r == NC_NOERR && np == 1, "single_run"); CANARY(r == NC_NOERR && IN_stride[0] > 1 && IN_count[0] == CMAX, "strided_three"); CANARY(r == NC_NOERR && !UNIT && np > 3, "element_runs");
}
