/* C15 / C02: merge_requests (static, src/drivers/ncmpio/ncmpio_wait.c, real code with its real
 * callees vars_flatten and off_compare): the step of the nonblocking aggregation that turns the
 * pending requests of one wait into the list of (file offset, length, buffer address) segments
 * handed to MPI-IO.  Instance: NR requests (enumerated), each on a one-dimensional fixed-size
 * variable of 1-byte elements (so every request is exactly one segment and all arithmetic is
 * linear); variable begins, starts, counts and the position of every request's buffer inside the
 * caller's array are symbolic.
 *
 * Clauses, phrased for an ARBITRARY file byte P (ghost index instead of a quantifier):
 *   C15  P is inside some output segment  <=>  P is addressed by some request
 *        (nothing outside the addressed elements is written or read; nothing addressed is lost);
 *        output segments are non-empty, sorted and pairwise disjoint;
 *   C02  if exactly one request addresses P, the buffer byte transferred for P is that request's
 *        own byte for P (aggregation moves the same data as the blocking call would).
 * off_len is extracted mechanically from ncmpio_wait.c on every run (jobs/C15.py, exit 2 if the
 * anchor is missing).  Trusted stubs with bodies: qsort (sorts NR <= 3 entries with the caller's
 * comparator), MPI_Get_address (addresses = byte offsets into the one caller array); ncmpio_wait.c is
 * compiled with -include stubs/aint_int.h (MPI_Aint_add / MPI_Aint_diff as integer arithmetic). */
#include <config.h>
#include <stdlib.h>
#include <pnetcdf.h>
#include <dispatch.h>
#include <ncmpio_NC.h>
#include "vh.h"
#include "off_len_extracted.h"

#ifndef NR
#define NR 2
#endif
#define BUFSZ (1LL << 22)
#define WT(sym) FL(ncmpio_wait, sym)

long long IN_begin[NR], IN_start[NR], IN_count[NR], IN_boff[NR], IN_P;

static char g_buf[16];   /* only its address is used: request buffers are g_buf + IN_boff[r] (never dereferenced here) */
static NC g_nc; static NC_var g_var[NR]; static NC_lead_req g_leads[NR]; static NC_req g_reqs[NR];
static MPI_Offset g_scs[NR][3], g_shape[NR][1];
static void *g_outbuf; static MPI_Offset g_nsegs; static off_len *g_segs;

int MPI_Get_address(const void *location, MPI_Aint *address) { *address = (MPI_Aint)((const char *)location - g_buf); return MPI_SUCCESS; }
void qsort(void *base, size_t nmemb, size_t size, int (*compar)(const void *, const void *))
{
    off_len *a = (off_len *)base;
    for (int pass = 0; pass < NR - 1; pass++)
        for (int k = 0; k + 1 < NR; k++)
            if ((size_t)(k + 1) < nmemb && compar(&a[k], &a[k + 1]) > 0) { off_len t = a[k]; a[k] = a[k + 1]; a[k + 1] = t; }
}

#define IOFF(r) (IN_begin[r] + IN_start[r])                       /* first file byte of request r */
#define IN_HAS(r, p) (IOFF(r) <= (p) && (p) < IOFF(r) + IN_count[r])
#define SEG(k) (g_segs[k])
#define OUT_HAS(k, p) ((k) < g_nsegs && SEG(k).off <= (p) && (p) < SEG(k).off + SEG(k).len)
#define ORDERED(k) IMPLIES((k) + 1 < g_nsegs, SEG(k).off + SEG(k).len <= SEG((k) + 1).off)
#define NONEMPTY(k) IMPLIES((k) < g_nsegs, SEG(k).len > 0)
/* buffer byte (offset from the first request's buffer) that segment k transfers for file byte p / that request r owns for p */
#define OUT_BYTE(k, p) (SEG(k).buf_addr + ((p) - SEG(k).off))
#define IN_BYTE(r, p)  (IN_boff[r] - IN_boff[0] + ((p) - IOFF(r)))
#define MAPS(k, r, p) IMPLIES(OUT_HAS(k, p) && IN_HAS(r, p), OUT_BYTE(k, p) == IN_BYTE(r, p))
#if NR == 2
#define ANY_IN(p)   (IN_HAS(0, p) || IN_HAS(1, p))
#define ANY_OUT(p)  (OUT_HAS(0, p) || OUT_HAS(1, p))
#define ONLY_ONE(p) (IN_HAS(0, p) != IN_HAS(1, p))
#define ALLK(X)     (X(0) && X(1))
#define ALL_MAPS(p) (MAPS(0, 0, p) && MAPS(0, 1, p) && MAPS(1, 0, p) && MAPS(1, 1, p))
#else
#define ANY_IN(p)   (IN_HAS(0, p) || IN_HAS(1, p) || IN_HAS(2, p))
#define ANY_OUT(p)  (OUT_HAS(0, p) || OUT_HAS(1, p) || OUT_HAS(2, p))
#define ONLY_ONE(p) ((IN_HAS(0, p) ? 1 : 0) + (IN_HAS(1, p) ? 1 : 0) + (IN_HAS(2, p) ? 1 : 0) == 1)
#define ALLK(X)     (X(0) && X(1) && X(2))
#define ALL_MAPS(p) (MAPS(0, 0, p) && MAPS(0, 1, p) && MAPS(0, 2, p) && MAPS(1, 0, p) && MAPS(1, 1, p) && MAPS(1, 2, p) && MAPS(2, 0, p) && MAPS(2, 1, p) && MAPS(2, 2, p))
#endif

int WT(merge_requests)(NC *ncp, NC_lead_req *lead_list, int num_reqs, NC_req *reqs, void **buf, MPI_Offset *nsegs, off_len **segs)
__CPROVER_requires(ncp == &g_nc && lead_list == g_leads && num_reqs == NR && reqs == g_reqs && buf == &g_outbuf && nsegs == &g_nsegs && segs == &g_segs)
__CPROVER_assigns(g_outbuf, g_nsegs, g_segs)
__CPROVER_ensures(__CPROVER_return_value == NC_NOERR && g_nsegs >= 1 && g_nsegs <= NR) /*@as_many_segments_as_requests_at_most*/
__CPROVER_ensures(ALLK(NONEMPTY) && ALLK(ORDERED)) /*@segments_non_empty_sorted_and_pairwise_disjoint*/
__CPROVER_ensures(IMPLIES(ANY_OUT(IN_P), ANY_IN(IN_P))) /*@C15_no_byte_outside_the_addressed_elements_is_transferred*/
__CPROVER_ensures(IMPLIES(ANY_IN(IN_P), ANY_OUT(IN_P))) /*@every_addressed_byte_is_transferred*/
__CPROVER_ensures(IMPLIES(ONLY_ONE(IN_P), ALL_MAPS(IN_P))) /*@C02_byte_addressed_by_one_request_moves_that_requests_buffer_byte*/
__CPROVER_ensures(g_outbuf == g_reqs[0].xbuf) /*@segment_addresses_are_relative_to_the_first_requests_buffer*/
;

void harness(void)
{
    IN_P = nondet_ll();
    g_nc.recsize = 0;
    for (int r = 0; r < NR; r++) {
        IN_begin[r] = nondet_ll(); IN_start[r] = nondet_ll(); IN_count[r] = nondet_ll(); IN_boff[r] = nondet_ll();
        __CPROVER_assume(IN_begin[r] >= 0 && IN_begin[r] < (1LL << 40) && IN_start[r] >= 0 && IN_start[r] < (1LL << 30));
        __CPROVER_assume(IN_count[r] >= 1 && IN_count[r] < (1LL << 30) && IN_boff[r] >= 0 && IN_boff[r] < BUFSZ);
        g_shape[r][0] = 1LL << 31;
        g_var[r].ndims = 1; g_var[r].xsz = 1; g_var[r].begin = IN_begin[r]; g_var[r].shape = g_shape[r]; g_var[r].xtype = NC_BYTE;
        g_scs[r][0] = IN_start[r]; g_scs[r][1] = IN_count[r]; g_scs[r][2] = 1;
        g_leads[r].varp = &g_var[r]; g_leads[r].flag = NC_REQ_STRIDE_NULL | NC_REQ_WR;
        g_reqs[r].lead_off = r; g_reqs[r].start = g_scs[r]; g_reqs[r].xbuf = g_buf + IN_boff[r]; g_reqs[r].nelems = IN_count[r];
    }
    g_outbuf = NULL; g_nsegs = 0; g_segs = NULL;
    int err = WT(merge_requests)(&g_nc, g_leads, NR, g_reqs, &g_outbuf, &g_nsegs, &g_segs);
    CANARY(g_nsegs == 1, "merged_into_one_segment");
    CANARY(g_nsegs == NR, "kept_apart");
    CANARY(g_nsegs == NR && IOFF(0) > IOFF(1), "sorted_by_file_offset");
    CANARY(g_nsegs == NR && IOFF(0) < IOFF(1) && IOFF(0) + IN_count[0] > IOFF(1), "overlap_split_because_buffers_not_adjacent");
    CANARY(g_nsegs == 1 && IOFF(0) < IOFF(1) && IOFF(0) + IN_count[0] > IOFF(1) && IOFF(1) + IN_count[1] > IOFF(0) + IN_count[0], "overlap_merged_because_buffers_line_up");
}
