/* C03 / C06 / C18: file layout computed at enddef - NC_begins (static, ncmpio_enddef.c).
 * Instance: NVARS variables of symbolic kind (fixed / record) and symbolic length, alignments H_ALIGN
 * and R_ALIGN enumerated constants (division by a symbolic alignment is out of solver reach), header
 * size by contract of ncmpio_hdr_len_NC.  Ghost pair (GA < GB) of variables instead of forall. */
#include <config.h>
#include <stdlib.h>
#include <pnetcdf.h>
#include <dispatch.h>
#include <ncmpio_NC.h>
#include "ghost.h"
#ifndef NVARS
#define NVARS 3
#endif
#ifndef H_ALIGN
#define H_ALIGN 512
#endif
#ifndef R_ALIGN
#define R_ALIGN 4
#endif
#if NVARS > 1
#define I1 1
#else
#define I1 0
#endif
#if NVARS > 2
#define I2 2
#else
#define I2 0
#endif
#if NVARS > 3
#define I3 3
#else
#define I3 0
#endif
#define ED(sym) FL(ncmpio_enddef, sym)
int GA, GB; long long g_xsz; long long IN_len[NVARS], IN_hminfree, IN_vminfree; _Bool IN_isrec[NVARS]; int IN_format;

MPI_Offset ncmpio_hdr_len_NC(const NC *ncp)
__CPROVER_assigns()
__CPROVER_ensures(__CPROVER_return_value == g_xsz)
;
#define V(i) (ncp->vars.value[i])
#define ISREC(i) IN_isrec[i]
static inline int spec_nrec(void) { int n = 0; for (int i = 0; i < NVARS; i++) n += IN_isrec[i]; return n; }
static inline long long spec_sumrec(void) { long long s = 0; for (int i = 0; i < NVARS; i++) if (IN_isrec[i]) s += IN_len[i]; return s; }
static inline int spec_first_fixed(void) { for (int i = 0; i < NVARS; i++) if (!IN_isrec[i]) return i; return -1; }
static inline int spec_last_rec(void) { int l = -1; for (int i = 0; i < NVARS; i++) if (IN_isrec[i]) l = i; return l; }
static inline long long spec_end_fixed(const NC *ncp)   /* end of the last fixed-size variable (or the header extent) */
{ long long e = -1; for (int i = 0; i < NVARS; i++) if (!IN_isrec[i]) e = ncp->vars.value[i]->begin + ncp->vars.value[i]->len; return e; }

int ED(NC_begins)(NC *ncp)
__CPROVER_requires(ncp->vars.ndefined == NVARS && ncp->old == NULL && ncp->safe_mode == 0 && (ncp->flags & NC_MODE_CREATE) && 0 <= GA && GA < GB && GB < NVARS)
__CPROVER_requires(ncp->h_align == H_ALIGN && ncp->r_align == R_ALIGN && ncp->h_minfree == IN_hminfree && ncp->v_minfree == IN_vminfree && IN_hminfree >= 0 && IN_hminfree < (1 << 20) &&
                   IN_vminfree >= 0 && IN_vminfree < (1 << 20) && g_xsz >= 32 && g_xsz < ((long long)1 << 30) && ncp->begin_rec >= 0 && ncp->begin_rec <= g_xsz && ncp->format == IN_format)
__CPROVER_assigns(ncp->xsz, ncp->begin_var, ncp->begin_rec, ncp->recsize, ncp->numrecs, V(0)->begin, V(I1)->begin, V(I2)->begin, V(I3)->begin, GH_COLL)
__CPROVER_ensures(IMPLIES(IN_format != 1, __CPROVER_return_value == NC_NOERR)) /*@layout_always_exists_for_64bit_offset_formats*/
__CPROVER_ensures(IMPLIES(__CPROVER_return_value == NC_NOERR, V(GA)->begin % 4 == 0 && V(GB)->begin % 4 == 0 && ncp->begin_var % 4 == 0 && ncp->begin_rec % 4 == 0)) /*@every_begin_4_byte_aligned*/
__CPROVER_ensures(IMPLIES(__CPROVER_return_value == NC_NOERR, ncp->xsz == g_xsz && ncp->begin_var >= g_xsz + IN_hminfree && V(GA)->begin >= ncp->begin_var && V(GB)->begin >= ncp->begin_var)) /*@data_after_header_and_requested_free_space*/
__CPROVER_ensures(IMPLIES(__CPROVER_return_value == NC_NOERR && ISREC(GA) == ISREC(GB), V(GA)->begin + IN_len[GA] <= V(GB)->begin)) /*@same_kind_variables_in_definition_order_without_overlap*/
__CPROVER_ensures(IMPLIES(__CPROVER_return_value == NC_NOERR && !ISREC(GA) && ISREC(GB), V(GA)->begin + IN_len[GA] + IN_vminfree <= ncp->begin_rec && ncp->begin_rec <= V(GB)->begin)) /*@record_section_after_fixed_section_and_free_space*/
__CPROVER_ensures(IMPLIES(__CPROVER_return_value == NC_NOERR && ISREC(GA) && !ISREC(GB), V(GB)->begin + IN_len[GB] + IN_vminfree <= ncp->begin_rec && ncp->begin_rec <= V(GA)->begin)) /*@record_section_after_fixed_section_even_if_defined_first*/
__CPROVER_ensures(IMPLIES(__CPROVER_return_value == NC_NOERR && spec_first_fixed() >= 0, ncp->begin_var == V(spec_first_fixed())->begin && ncp->begin_var % H_ALIGN == 0)) /*@first_fixed_variable_honours_header_alignment*/
__CPROVER_ensures(IMPLIES(__CPROVER_return_value == NC_NOERR && spec_first_fixed() < 0, ncp->begin_var == ncp->begin_rec)) /*@no_fixed_variable_header_extent_is_record_section_start*/
__CPROVER_ensures(IMPLIES(__CPROVER_return_value == NC_NOERR, ncp->begin_rec % R_ALIGN == 0)) /*@record_section_honours_record_alignment*/
__CPROVER_ensures(IMPLIES(__CPROVER_return_value == NC_NOERR && spec_nrec() != 1, ncp->recsize == spec_sumrec())) /*@record_size_is_sum_of_record_variable_sizes*/
__CPROVER_ensures(IMPLIES(__CPROVER_return_value == NC_NOERR && spec_nrec() == 1, ncp->recsize == V(spec_last_rec())->dsizes[0] * V(spec_last_rec())->xsz)) /*@single_record_variable_packing_rule*/
__CPROVER_ensures(IMPLIES(__CPROVER_return_value == NC_NOERR, ncp->numrecs == 0)) /*@new_file_has_no_records*/
__CPROVER_ensures(IMPLIES(IN_format == 1 && __CPROVER_return_value == NC_NOERR, V(GA)->begin <= 2147483647LL + 4 && V(GB)->begin <= 2147483647LL + 4)) /*@C18_cdf1_offsets_below_2GiB*/
__CPROVER_ensures(__CPROVER_return_value == NC_NOERR || __CPROVER_return_value == NC_EVARSIZE) /*@retcode*/
;

static NC nc; static NC_var var[NVARS]; static NC_var *vp[NVARS]; static MPI_Offset shp[NVARS][1], ds[NVARS][1];
void harness(void)
{
    ghost_setup(0);
    GA = nondet_int(); GB = nondet_int(); __CPROVER_assume(0 <= GA && GA < GB && GB < NVARS);
    g_xsz = nondet_ll(); IN_hminfree = nondet_ll(); IN_vminfree = nondet_ll(); IN_format = nondet_int();
    __CPROVER_assume(IN_format == 1 || IN_format == 2 || IN_format == 5);
    for (int i = 0; i < NVARS; i++) {
        IN_isrec[i] = nondet_bool(); IN_len[i] = nondet_ll(); __CPROVER_assume(IN_len[i] >= 4 && IN_len[i] < ((long long)1 << 32) && IN_len[i] % 4 == 0);
        shp[i][0] = IN_isrec[i] ? NC_UNLIMITED : 3; ds[i][0] = nondet_ll(); __CPROVER_assume(ds[i][0] >= 0 && ds[i][0] < 1000);
        var[i].ndims = 1; var[i].shape = shp[i]; var[i].dsizes = ds[i]; var[i].len = IN_len[i]; var[i].xsz = 2; var[i].begin = nondet_ll(); vp[i] = &var[i];
    }
    nc.vars.ndefined = NVARS; nc.vars.value = vp; nc.old = NULL; nc.safe_mode = 0; nc.nprocs = g_nprocs; nc.flags = NC_MODE_CREATE | NC_MODE_DEF; nc.format = IN_format;
    nc.h_align = H_ALIGN; nc.r_align = R_ALIGN; nc.v_align = 4; nc.h_minfree = IN_hminfree; nc.v_minfree = IN_vminfree; nc.begin_rec = 0; nc.begin_var = 0; nc.numrecs = 7;
    int r = ED(NC_begins)(&nc);
    CANARY(r == NC_NOERR && IN_isrec[0] && !IN_isrec[NVARS - 1], "record_defined_before_fixed"); CANARY(r == NC_EVARSIZE, "evarsize"); CANARY(r == NC_NOERR && spec_nrec() == 1, "single_record_var");
}
