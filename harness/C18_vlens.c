/* C18: size rules at enddef - ncmpio_NC_check_vlens / ncmpio_NC_check_vlen (ncmpio_enddef.c) */
#include <config.h>
#include <stdlib.h>
#include <pnetcdf.h>
#include <dispatch.h>
#include <ncmpio_NC.h>
#include "vh.h"
#ifndef NVARS
#define NVARS 3
#endif
#ifndef NDIMS
#define NDIMS 2
#endif

/* ghost: fits[i] = "variable i (one record of it, for a record variable) fits the format's limit" */
_Bool g_fits[8];
long long g_vlen_max_seen;   /* the limit the leaf was asked about */
int IN_format; _Bool IN_isrec[8], IN_fits[8];

/* specification (format rules, C18 statement): CDF-5: every variable fits; CDF-1/2: at most one
 * oversize fixed variable, it must be the last fixed one and then there is no record variable;
 * at most one oversize record variable and it must be the last record variable */
static inline int spec_vlens_ok(int format, int n, const _Bool *isrec, const _Bool *fits)
{
    int nfix_big = 0, nrec_big = 0, nrec = 0, last_fix = -1, last_rec = -1, big_fix = -1, big_rec = -1;
    for (int i = 0; i < 8; i++) if (i < n) {
        if (isrec[i]) { nrec++; last_rec = i; if (!fits[i]) { nrec_big++; big_rec = i; } }
        else { last_fix = i; if (!fits[i]) { nfix_big++; big_fix = i; } }
    }
    if (format >= 5) return nfix_big == 0 && nrec_big == 0;
    if (nfix_big > 1 || nrec_big > 1) return 0;
    if (nfix_big == 1 && (big_fix != last_fix || nrec > 0)) return 0;
    if (nrec_big == 1 && big_rec != last_rec) return 0;
    return 1;
}
static inline long long spec_limit(int format)
{ return format >= 5 ? 9223372036854775804LL : format == 2 ? 4294967292LL : 2147483644LL; }

/* ---- leaf: ncmpio_NC_check_vlen.  Contract used at the call sites of check_vlens --------------- */
int ncmpio_NC_check_vlen(NC_var *varp, MPI_Offset vlen_max)
#ifdef LEAF_ABSTRACT
__CPROVER_requires(varp != NULL && 0 <= varp->varid && varp->varid < NVARS)
__CPROVER_requires(vlen_max == spec_limit(IN_format))      /* the caller must ask about the right limit */
__CPROVER_assigns()
__CPROVER_ensures(__CPROVER_return_value == (g_fits[varp->varid] ? 1 : 0)) /*@leaf_abstract*/
#else
/* functional contract, instance = NDIMS dimensions with concrete-or-bounded lengths (see jobs) */
__CPROVER_requires(__CPROVER_is_fresh(varp, sizeof(NC_var)))
__CPROVER_requires(varp->ndims == NDIMS && varp->xsz >= 1 && varp->xsz <= 8)
__CPROVER_requires(NDIMS == 0 ? varp->shape == NULL : __CPROVER_is_fresh(varp->shape, NDIMS * sizeof(MPI_Offset)))   /* scalars carry no shape array */
__CPROVER_requires(NDIMS < 1 || (varp->shape[0] >= 0 && varp->shape[0] <= SHAPE_MAX))
__CPROVER_requires(NDIMS < 2 || (varp->shape[1] >= 1 && varp->shape[1] <= SHAPE_MAX))
__CPROVER_requires(NDIMS < 3 || (varp->shape[2] >= 1 && varp->shape[2] <= SHAPE_MAX))
__CPROVER_requires(vlen_max == VLEN_MAX)
__CPROVER_assigns()
__CPROVER_ensures(__CPROVER_return_value == 0 || __CPROVER_return_value == 1) /*@retcode*/
__CPROVER_ensures(IFF(__CPROVER_return_value == 1,
     (__int128)varp->xsz * (NDIMS >= 1 && varp->shape[0] != NC_UNLIMITED ? (__int128)varp->shape[0] : 1)
                         * (NDIMS >= 2 ? (__int128)varp->shape[1] : 1) * (NDIMS >= 3 ? (__int128)varp->shape[2] : 1) <= (__int128)vlen_max)) /*@fits_iff_true_product_within_limit*/
#endif
;

/* ---- ncmpio_NC_check_vlens ----------------------------------------------------------------------- */
int ncmpio_NC_check_vlens(NC *ncp)
__CPROVER_requires(ncp != NULL && ncp->vars.ndefined == NVARS && (ncp->format == 1 || ncp->format == 2 || ncp->format == 5))
__CPROVER_requires(ncp->format == IN_format)
__CPROVER_assigns()
__CPROVER_ensures(__CPROVER_return_value == NC_NOERR || __CPROVER_return_value == NC_EVARSIZE) /*@retcode*/
__CPROVER_ensures(IFF(__CPROVER_return_value == NC_NOERR, spec_vlens_ok(IN_format, NVARS, IN_isrec, IN_fits))) /*@accepts_iff_size_rules_hold*/
;

#ifdef H_vlens
static NC nc; static NC_var vars[NVARS ? NVARS : 1]; static NC_var *vp[NVARS ? NVARS : 1]; static MPI_Offset shp[NVARS ? NVARS : 1][2];
void harness(void)
{
    IN_format = nondet_int();
    __CPROVER_assume(IN_format == 1 || IN_format == 2 || IN_format == 5);
    for (int i = 0; i < NVARS; i++) {
        IN_isrec[i] = nondet_bool(); IN_fits[i] = nondet_bool(); g_fits[i] = IN_fits[i];
        vars[i].varid = i; vars[i].ndims = nondet_bool() ? 0 : 2; vars[i].xsz = 4;
        shp[i][0] = IN_isrec[i] ? NC_UNLIMITED : 7; shp[i][1] = 5;
        /* a scalar variable has no shape and is never a record variable */
        if (vars[i].ndims == 0) { vars[i].shape = NULL; IN_isrec[i] = 0; } else vars[i].shape = shp[i];
        vp[i] = &vars[i];
    }
    nc.format = IN_format; nc.vars.ndefined = NVARS; nc.vars.value = vp;
    int r = ncmpio_NC_check_vlens(&nc);
    CANARY(r == NC_NOERR, "noerr"); CANARY(r == NC_EVARSIZE, "evarsize");
#if NVARS >= 2
    CANARY(r == NC_NOERR && !IN_fits[NVARS - 1], "oversize_last_accepted");
#endif
}
#endif
#ifdef H_vlen
void harness(void)
{
    NC_var *v; int r = ncmpio_NC_check_vlen(v, nondet_ll());
    CANARY(r == 1, "fits"); CANARY(r == 0, "too_big");
}
#endif
