/* C14 / C06 / C11: driver-level mode changes of src/drivers/ncmpio/ncmpio_file_misc.c.
 *   ncmpio_redef: leaves independent mode (which synchronises the record count) BEFORE the copy of the
 *     header that enddef later compares and moves data against is taken; enters define mode; a failure
 *     of the synchronisation is returned (C11); no other effect.
 *   ncmpio_abort: a redefinition is discarded without any call that writes the header (no enddef, no
 *     header write); a newly created file is removed (doUnlink), any other file is not; independent
 *     mode is left first; the first error is returned; the file object is released exactly once, last.
 * Callees by contract (ghost call log). */
#include <config.h>
#include <stdlib.h>
#include <pnetcdf.h>
#include <dispatch.h>
#include <ncmpio_NC.h>
#include <ncmpio_driver.h>
#include "vh.h"
#define FM(sym) FL(ncmpio_file_misc, sym)
enum { K_END_INDEP = 1, K_DUP, K_FREE_OLD, K_CLOSE_FILES, K_FREE_NCP };
int g_n, g_log[6]; int g_end_ret, g_close_ret, g_close_unlink; NC *g_dup_ptr; _Bool g_dup_null; int IN_flags; _Bool IN_has_old;
static NC nc, oldnc, dupnc;
#define LOGGED(k) ((g_n > 0 && g_log[0] == (k)) || (g_n > 1 && g_log[1] == (k)) || (g_n > 2 && g_log[2] == (k)) || (g_n > 3 && g_log[3] == (k)))
#define APPEND(k) (g_n == __CPROVER_old(g_n) + 1 && g_n <= 6 && g_log[__CPROVER_old(g_n)] == (k) && \
    IMPLIES(__CPROVER_old(g_n) > 0, g_log[0] == __CPROVER_old(g_log[0])) && IMPLIES(__CPROVER_old(g_n) > 1, g_log[1] == __CPROVER_old(g_log[1])) && \
    IMPLIES(__CPROVER_old(g_n) > 2, g_log[2] == __CPROVER_old(g_log[2])) && IMPLIES(__CPROVER_old(g_n) > 3, g_log[3] == __CPROVER_old(g_log[3])))

int ncmpio_end_indep_data(void *ncdp)
__CPROVER_requires(g_n >= 0 && g_n < 5 && ncdp == &nc)
__CPROVER_assigns(g_n, __CPROVER_object_whole(g_log), nc.flags)
__CPROVER_ensures(APPEND(K_END_INDEP) && __CPROVER_return_value == g_end_ret && nc.flags == (__CPROVER_old(nc.flags) & ~NC_MODE_INDEP))
;
NC *FM(dup_NC)(const NC *ref)
__CPROVER_requires(g_n >= 0 && g_n < 5 && ref == &nc)
__CPROVER_assigns(g_n, __CPROVER_object_whole(g_log))
__CPROVER_ensures(APPEND(K_DUP))
__CPROVER_ensures(g_dup_null ==> __CPROVER_return_value == NULL)
__CPROVER_ensures(!g_dup_null ==> __CPROVER_pointer_equals(__CPROVER_return_value, g_dup_ptr))
;
void ncmpio_free_NC(NC *ncp)
__CPROVER_requires(g_n >= 0 && g_n < 5 && (ncp == &nc || ncp == &oldnc))
__CPROVER_assigns(g_n, __CPROVER_object_whole(g_log))
__CPROVER_ensures(APPEND(ncp == &nc ? K_FREE_NCP : K_FREE_OLD))
;
int ncmpio_close_files(NC *ncp, int doUnlink)
__CPROVER_requires(g_n >= 0 && g_n < 5 && ncp == &nc)
__CPROVER_assigns(g_n, __CPROVER_object_whole(g_log), g_close_unlink)
__CPROVER_ensures(APPEND(K_CLOSE_FILES) && g_close_unlink == doUnlink && __CPROVER_return_value == g_close_ret)
;
#define WAS(f) ((IN_flags & (f)) != 0)

#ifdef H_redef
int ncmpio_redef(void *ncdp)
__CPROVER_requires(ncdp == &nc && nc.flags == IN_flags && !WAS(NC_MODE_DEF) && g_n == 0 && nc.old == NULL)
#ifdef EXCLUDE_F25
__CPROVER_requires(g_end_ret == NC_NOERR)   /* known finding F25: the failure class is excluded when the check is re-run */
#endif
__CPROVER_assigns(g_n, __CPROVER_object_whole(g_log), nc.flags, nc.old)
__CPROVER_ensures(IMPLIES(WAS(NC_MODE_INDEP), g_n == 2 && g_log[0] == K_END_INDEP && g_log[1] == K_DUP) && IMPLIES(!WAS(NC_MODE_INDEP), g_n == 1 && g_log[0] == K_DUP)) /*@C06_record_count_synchronised_before_the_reference_copy_of_the_header_is_taken*/
__CPROVER_ensures(IMPLIES(!g_dup_null, (nc.flags & NC_MODE_DEF) && !(nc.flags & NC_MODE_INDEP) && nc.old == &dupnc)) /*@C14_define_mode_entered_with_the_copy_kept_for_enddef*/
__CPROVER_ensures(IMPLIES(WAS(NC_MODE_INDEP) && g_end_ret != NC_NOERR, __CPROVER_return_value != NC_NOERR)) /*@C11_failed_record_count_synchronisation_reported*/
__CPROVER_ensures(IMPLIES(g_dup_null, __CPROVER_return_value != NC_NOERR && !(nc.flags & NC_MODE_DEF))) /*@no_define_mode_without_the_reference_copy*/
__CPROVER_ensures(IMPLIES(!g_dup_null && (!WAS(NC_MODE_INDEP) || g_end_ret == NC_NOERR), __CPROVER_return_value == NC_NOERR)) /*@success_otherwise*/
;
#else
int ncmpio_abort(void *ncdp)
__CPROVER_requires(ncdp == &nc && nc.flags == IN_flags && g_n == 0 && nc.old == (IN_has_old ? &oldnc : NULL) && IMPLIES(IN_has_old, WAS(NC_MODE_DEF) && !WAS(NC_MODE_CREATE)))
__CPROVER_assigns(g_n, __CPROVER_object_whole(g_log), nc.flags, nc.old, g_close_unlink)
__CPROVER_ensures(g_n >= 2 && g_log[g_n - 1] == K_FREE_NCP && g_log[g_n - 2] == K_CLOSE_FILES && !LOGGED(K_DUP)) /*@file_closed_then_object_released_last_nothing_written*/
__CPROVER_ensures((g_close_unlink != 0) == WAS(NC_MODE_CREATE)) /*@C06_new_file_removed_existing_file_kept*/
__CPROVER_ensures(IMPLIES(IN_has_old, g_log[0] == K_FREE_OLD) && IMPLIES(!IN_has_old, !LOGGED(K_FREE_OLD))) /*@C06_redefinition_discarded*/
__CPROVER_ensures(IFF(LOGGED(K_END_INDEP), !WAS(NC_MODE_CREATE) && !WAS(NC_MODE_RDONLY) && WAS(NC_MODE_INDEP))) /*@independent_mode_left_first_for_a_writable_existing_file*/
__CPROVER_ensures(__CPROVER_return_value == ((LOGGED(K_END_INDEP) && g_end_ret != NC_NOERR) ? g_end_ret : g_close_ret)) /*@C11_first_error_returned*/
;
#endif

void harness(void)
{
    IN_flags = nondet_int(); IN_has_old = nondet_bool(); g_end_ret = nondet_int(); g_close_ret = nondet_int(); g_dup_null = nondet_bool(); __CPROVER_assume(g_end_ret <= 0 && g_close_ret <= 0);
    g_n = 0; g_dup_ptr = &dupnc; nc.flags = IN_flags;
#ifdef H_redef
    __CPROVER_assume(!WAS(NC_MODE_DEF)); nc.old = NULL;
#ifdef EXCLUDE_F25
    __CPROVER_assume(g_end_ret == NC_NOERR);
#endif
    int r = ncmpio_redef(&nc);
    CANARY(r == NC_NOERR && g_n == 2, "left_independent_mode"); CANARY(r == NC_NOERR && g_n == 1, "from_collective_mode"); CANARY(r != NC_NOERR && g_dup_null, "no_copy_no_define_mode");
#else
    __CPROVER_assume(!IN_has_old || (WAS(NC_MODE_DEF) && !WAS(NC_MODE_CREATE))); nc.old = IN_has_old ? &oldnc : NULL;
    int r = ncmpio_abort(&nc);
    CANARY(g_close_unlink != 0, "new_file_removed"); CANARY(IN_has_old && r == NC_NOERR, "redefinition_discarded"); CANARY(g_n == 4, "four_steps");
#endif
}
