/* C07 (names are normalised before every lookup / table update), C19 (copy into an existing attribute
 * stays inside its value buffer): ncmpio_rename_att and ncmpio_copy_att of the regenerated ncmpio_attr.c.
 * ncmpio_NC_findattr is replaced by a contract delivering ghost-chosen indices and recording the name it
 * was asked for; ncmpii_utf8_normalize, ncmpio_hash_replace / hash_insert and ncmpio_write_header are
 * harness stubs with bodies (they hand out / receive heap pointers - see DESIGN 9.2 on pointers from
 * replaced contracts) that record their arguments.  The hash functions' own contracts: C07_hash.c. */
#include <config.h>
#include <stdlib.h>
#include <string.h>
#include <pnetcdf.h>
#include <dispatch.h>
#include <ncmpio_NC.h>
#include <ncmpio_driver.h>
#include "ghost.h"
#define NATT 2
const char *g_norm_in[2]; char *g_norm_out[2]; int g_norm_ret[2]; int g_norm_calls; size_t g_norm_len[2];
const char *g_find_arg[3]; const NC_attrarray *g_find_tab[3]; int g_find_ret[3]; int g_find_calls;
int g_hr_calls, g_hr_id, g_hr_size; const char *g_hr_old, *g_hr_new; NC_nametable *g_hr_tab; _Bool g_hr_old_live;
int g_hi_calls, g_hi_id; const char *g_hi_name; NC_nametable *g_hi_tab;
int g_wh_calls, g_wh_ret; const char *g_wh_name_seen;
int IN_varid, IN_flags; char *IN_oldname_ptr; size_t IN_old_len; int IN_find0, IN_find1, IN_find2;
const char *IN_name, *IN_newname;
static NC nc; static NC_var var0; static NC_var *varp[1]; static NC_attr gat[NATT], vat[NATT]; static NC_attr *gatp[NATT], *vatp[NATT]; static NC_nametable gT[2], vT[2];

int ncmpio_NC_findattr(const NC_attrarray *ncap, const char *uname)
__CPROVER_requires(g_find_calls >= 0 && g_find_calls < 3)
__CPROVER_assigns(g_find_calls, __CPROVER_object_whole(g_find_arg), __CPROVER_object_whole(g_find_tab))
__CPROVER_ensures(g_find_calls == __CPROVER_old(g_find_calls) + 1 && g_find_arg[__CPROVER_old(g_find_calls)] == uname && g_find_tab[__CPROVER_old(g_find_calls)] == ncap)
__CPROVER_ensures(__CPROVER_return_value == g_find_ret[__CPROVER_old(g_find_calls)])
/* append-only */
__CPROVER_ensures(IMPLIES(__CPROVER_old(g_find_calls) >= 1, g_find_arg[0] == __CPROVER_old(g_find_arg[0]) && g_find_tab[0] == __CPROVER_old(g_find_tab[0])))
__CPROVER_ensures(IMPLIES(__CPROVER_old(g_find_calls) >= 2, g_find_arg[1] == __CPROVER_old(g_find_arg[1]) && g_find_tab[1] == __CPROVER_old(g_find_tab[1])))
;

/* trusted: Unicode NFC normalisation (utf8proc).  Result: a fresh heap string of at most 3 characters. */
int ncmpii_utf8_normalize(const char *str, char **normalp)
{
    __CPROVER_assert(g_norm_calls < 2, "at_most_two_normalisations");
    int k = g_norm_calls++, r = nondet_int();
    __CPROVER_assume(r == NC_NOERR || r == NC_EBADNAME || r == NC_ENOMEM || r == NC_EINVAL);
    g_norm_in[k] = str; g_norm_ret[k] = r;
    if (r == NC_NOERR) { char *p = malloc(4); p[0] = nondet_char(); p[1] = nondet_char(); p[2] = nondet_char(); p[3] = 0; *normalp = p; g_norm_out[k] = p; g_norm_len[k] = p[0] == 0 ? 0 : p[1] == 0 ? 1 : p[2] == 0 ? 2 : 3; }
    return r;
}
int ncmpio_hash_replace(NC_nametable *nameT, int hash_size, const char *old_name, const char *new_name, int id)
{
    g_hr_calls++; g_hr_tab = nameT; g_hr_size = hash_size; g_hr_old = old_name; g_hr_new = new_name; g_hr_id = id;
    g_hr_old_live = __CPROVER_r_ok(old_name, 1) && __CPROVER_r_ok(new_name, 1);
    return NC_NOERR;
}
void ncmpio_hash_insert(NC_nametable *nameT, int hash_size, const char *name, int id)
{
    g_hi_calls++; g_hi_tab = nameT; g_hi_name = name; g_hi_id = id; g_hr_size = hash_size;
}
int ncmpio_write_header(NC *ncp)
{
    g_wh_calls++; g_wh_ret = nondet_int(); __CPROVER_assume(g_wh_ret <= 0);
    g_wh_name_seen = (IN_varid == NC_GLOBAL ? gat : vat)[IN_find0 >= 0 && IN_find0 < NATT ? IN_find0 : 0].name;
    return g_wh_ret;
}
#define TAB (IN_varid == NC_GLOBAL ? &nc.attrs : &var0.attrs)
#define ATT ((IN_varid == NC_GLOBAL ? gat : vat)[IN_find0])
#define OKRET (__CPROVER_return_value == NC_NOERR || (g_wh_calls == 1 && __CPROVER_return_value == g_wh_ret))
#define RENAMED (g_hr_calls == 1)

#ifndef H_copy
int ncmpio_rename_att(void *ncdp, int varid, const char *name, const char *newname)
__CPROVER_requires(ncdp == &nc && varid == IN_varid && (varid == NC_GLOBAL || varid == 0) && name == IN_name && newname == IN_newname && nc.safe_mode == 0 && nc.flags == IN_flags)
__CPROVER_requires(g_norm_calls == 0 && g_find_calls == 0 && g_hr_calls == 0 && g_wh_calls == 0 && g_find_ret[0] == IN_find0 && g_find_ret[1] == IN_find1 && IN_find0 >= -1 && IN_find0 < NATT && IN_find1 >= -1 && IN_find1 < NATT)
__CPROVER_requires(gat[0].name == IN_oldname_ptr && gat[1].name == IN_oldname_ptr && vat[0].name == IN_oldname_ptr && vat[1].name == IN_oldname_ptr)
__CPROVER_assigns(g_norm_calls, __CPROVER_object_whole(g_norm_in), __CPROVER_object_whole(g_norm_out), __CPROVER_object_whole(g_norm_ret), __CPROVER_object_whole(g_norm_len), g_find_calls, __CPROVER_object_whole(g_find_arg), __CPROVER_object_whole(g_find_tab),
                  g_hr_calls, g_hr_id, g_hr_size, g_hr_old, g_hr_new, g_hr_tab, g_hr_old_live, g_wh_calls, g_wh_ret, g_wh_name_seen, __CPROVER_object_whole(gat), __CPROVER_object_whole(vat))
__CPROVER_frees(IN_oldname_ptr)
__CPROVER_ensures(g_norm_calls >= 1 && g_norm_in[0] == IN_name && IMPLIES(g_find_calls >= 1, g_norm_ret[0] == NC_NOERR && g_find_arg[0] == g_norm_out[0] && g_find_tab[0] == TAB)) /*@old_name_looked_up_in_normalised_form*/
__CPROVER_ensures(IMPLIES(g_find_calls >= 2, g_norm_calls == 2 && g_norm_in[1] == IN_newname && g_norm_ret[1] == NC_NOERR && g_find_arg[1] == g_norm_out[1] && g_find_tab[1] == TAB)) /*@new_name_checked_for_use_in_normalised_form*/
__CPROVER_ensures(IMPLIES(RENAMED, g_find_calls == 2 && IN_find0 >= 0 && IN_find1 < 0 && g_hr_tab == TAB->nameT && g_hr_size == TAB->hash_size && g_hr_id == IN_find0 &&
                                   g_hr_old == IN_oldname_ptr && g_hr_new == g_norm_out[1] && g_hr_old_live)) /*@name_table_updated_old_name_to_normalised_new_name_same_id*/
__CPROVER_ensures(IMPLIES(RENAMED, ATT.name == g_norm_out[1] && ATT.name_len == g_norm_len[1])) /*@attribute_carries_the_normalised_new_name*/
__CPROVER_ensures(IMPLIES(RENAMED, OKRET) && IMPLIES(__CPROVER_return_value == NC_NOERR, RENAMED)) /*@success_iff_renamed*/
__CPROVER_ensures(IMPLIES(!RENAMED, g_wh_calls == 0 && gat[0].name == IN_oldname_ptr && gat[1].name == IN_oldname_ptr && vat[0].name == IN_oldname_ptr && vat[1].name == IN_oldname_ptr &&
                                    gat[0].name_len == IN_old_len && vat[1].name_len == IN_old_len)) /*@failed_rename_changes_nothing*/
__CPROVER_ensures(IMPLIES(g_norm_ret[0] == NC_NOERR && IN_find0 < 0, __CPROVER_return_value == NC_ENOTATT)) /*@unknown_attribute_ENOTATT*/
__CPROVER_ensures(IMPLIES(g_norm_ret[0] == NC_NOERR && IN_find0 >= 0 && g_norm_calls == 2 && g_norm_ret[1] == NC_NOERR && IN_find1 >= 0, __CPROVER_return_value == NC_ENAMEINUSE)) /*@name_in_use_ENAMEINUSE*/
__CPROVER_ensures(IMPLIES(g_norm_calls == 2 && g_norm_ret[1] == NC_NOERR && IN_find0 >= 0 && IN_find1 < 0 && !(IN_flags & NC_MODE_DEF) && g_norm_len[1] > IN_old_len,
                          __CPROVER_return_value == NC_ENOTINDEFINE && !RENAMED)) /*@longer_name_needs_define_mode*/
__CPROVER_ensures(IMPLIES(RENAMED, g_wh_calls == ((IN_flags & NC_MODE_DEF) ? 0 : 1) && IMPLIES(g_wh_calls == 1, g_wh_name_seen == g_norm_out[1] && __CPROVER_return_value == g_wh_ret))) /*@data_mode_rename_rewrites_header_after_the_change*/
;

void harness(void)
{
    ghost_setup(0);
    IN_varid = nondet_int(); IN_flags = nondet_int(); IN_find0 = nondet_int(); IN_find1 = nondet_int(); IN_old_len = nondet_size_t();
    __CPROVER_assume(IN_varid == NC_GLOBAL || IN_varid == 0); __CPROVER_assume(IN_find0 >= -1 && IN_find0 < NATT && IN_find1 >= -1 && IN_find1 < NATT && IN_old_len <= 3);
    static const char n1[] = "a", n2[] = "b"; IN_name = n1; IN_newname = n2;
    IN_oldname_ptr = malloc(4); IN_oldname_ptr[3] = 0;
    for (int k = 0; k < NATT; k++) { gat[k].name = IN_oldname_ptr; gat[k].name_len = IN_old_len; vat[k].name = IN_oldname_ptr; vat[k].name_len = IN_old_len; gatp[k] = &gat[k]; vatp[k] = &vat[k]; }
    nc.attrs.ndefined = NATT; nc.attrs.value = gatp; nc.attrs.hash_size = 2; nc.attrs.nameT = gT;
    var0.attrs.ndefined = NATT; var0.attrs.value = vatp; var0.attrs.hash_size = 2; var0.attrs.nameT = vT; varp[0] = &var0; nc.vars.ndefined = 1; nc.vars.value = varp;
    nc.safe_mode = 0; nc.nprocs = 1; nc.flags = IN_flags;
    g_norm_calls = 0; g_find_calls = 0; g_hr_calls = 0; g_wh_calls = 0; g_hi_calls = 0; g_find_ret[0] = IN_find0; g_find_ret[1] = IN_find1; g_find_ret[2] = -1;
    int r = ncmpio_rename_att(&nc, IN_varid, n1, n2);
    CANARY(r == NC_NOERR && g_wh_calls == 1, "renamed_in_data_mode"); CANARY(r == NC_NOERR && g_wh_calls == 0, "renamed_in_define_mode"); CANARY(r == NC_ENAMEINUSE, "name_in_use");
    CANARY(r == NC_ENOTINDEFINE, "longer_in_data_mode"); CANARY(r == NC_EBADNAME, "bad_name");
}
#else
/* ---- ncmpio_copy_att: source file nc_in (global table), destination nc (global or variable 0) ---- */
static NC nc_in; static NC_attr iat[NATT]; static NC_attr *iatp[NATT]; static NC_nametable iT[2];
int IN_in_type, IN_out_type, IN_same; long long IN_in_nelems, IN_out_nelems; void *IN_out_xvalue, *IN_out_xvalue2; NC_attr **IN_out_value;
#define XSZ(t, n) ((t) == NC_INT ? 4 * (n) : (((n) + 3) / 4) * 4)
#define OUT_ATT ((IN_varid == NC_GLOBAL ? gat : vat)[IN_find1])
#define COPIED (__CPROVER_return_value == NC_NOERR || (g_wh_calls == 1 && __CPROVER_return_value == g_wh_ret))
#define SELF (IN_same && IN_varid == NC_GLOBAL)
int ncmpio_copy_att(void *ncdp_in, int varid_in, const char *name, void *ncdp_out, int varid_out)
__CPROVER_requires(ncdp_out == &nc && ncdp_in == (IN_same ? &nc : &nc_in) && varid_in == NC_GLOBAL && varid_out == IN_varid && (IN_varid == NC_GLOBAL || IN_varid == 0) && name == IN_name && nc.safe_mode == 0 && nc.flags == IN_flags)
__CPROVER_requires(g_norm_calls == 0 && g_find_calls == 0 && g_hi_calls == 0 && g_wh_calls == 0 && g_find_ret[0] == IN_find0 && g_find_ret[1] == IN_find1 && IN_find0 >= -1 && IN_find0 < NATT && IN_find1 >= -1 && IN_find1 < NATT)
__CPROVER_assigns(g_norm_calls, __CPROVER_object_whole(g_norm_in), __CPROVER_object_whole(g_norm_out), __CPROVER_object_whole(g_norm_ret), __CPROVER_object_whole(g_norm_len), g_find_calls, __CPROVER_object_whole(g_find_arg), __CPROVER_object_whole(g_find_tab),
                  g_hi_calls, g_hi_id, g_hr_size, g_hi_name, g_hi_tab, g_wh_calls, g_wh_ret, g_wh_name_seen, __CPROVER_object_whole(gat), __CPROVER_object_whole(vat), nc.attrs, var0.attrs,
                  __CPROVER_object_whole(IN_out_value))
__CPROVER_assigns(IN_out_xvalue != NULL: __CPROVER_object_whole(IN_out_xvalue))
__CPROVER_assigns(IN_out_xvalue2 != NULL: __CPROVER_object_whole(IN_out_xvalue2))
__CPROVER_frees(IN_out_xvalue, IN_out_xvalue2)
__CPROVER_ensures(g_norm_calls == 1 && g_norm_in[0] == IN_name && IMPLIES(g_find_calls >= 1, g_norm_ret[0] == NC_NOERR && g_find_arg[0] == g_norm_out[0]) && IMPLIES(g_find_calls == 2, g_find_arg[1] == g_norm_out[0] && g_find_tab[1] == TAB)) /*@both_lookups_use_the_normalised_name*/
__CPROVER_ensures(IMPLIES(g_norm_ret[0] == NC_NOERR && IN_find0 < 0, __CPROVER_return_value == NC_ENOTATT)) /*@unknown_source_attribute_ENOTATT*/
__CPROVER_ensures(IMPLIES(COPIED && IN_find1 >= 0 && !SELF, OUT_ATT.xsz == XSZ(IN_in_type, IN_in_nelems) && OUT_ATT.nelems == IN_in_nelems && OUT_ATT.xtype == IN_in_type && OUT_ATT.name == IN_oldname_ptr &&
                          TAB->ndefined == NATT && g_hi_calls == 0)) /*@existing_attribute_takes_type_length_of_the_source_keeps_its_name_and_slot*/
__CPROVER_ensures(IMPLIES(COPIED && IN_find1 >= 0 && !SELF && XSZ(IN_in_type, IN_in_nelems) > 0, __CPROVER_w_ok(OUT_ATT.xvalue, XSZ(IN_in_type, IN_in_nelems)))) /*@C19_value_buffer_of_existing_attribute_holds_the_new_value*/
__CPROVER_ensures(IMPLIES(COPIED && IN_find1 < 0, (IN_flags & NC_MODE_DEF) && g_hi_calls == 1 && g_hi_tab == TAB->nameT && g_hr_size == TAB->hash_size && g_hi_name == g_norm_out[0] && g_hi_id == NATT &&
                          TAB->ndefined == NATT + 1 && TAB->value[NATT]->name == g_norm_out[0] && TAB->value[NATT]->nelems == IN_in_nelems && TAB->value[NATT]->xtype == IN_in_type &&
                          TAB->value[NATT]->xsz == XSZ(IN_in_type, IN_in_nelems))) /*@new_attribute_appended_under_the_normalised_name_and_entered_in_the_name_table*/
__CPROVER_ensures(IMPLIES(g_norm_ret[0] == NC_NOERR && IN_find0 >= 0 && IN_find1 < 0 && !(IN_flags & NC_MODE_DEF), __CPROVER_return_value == NC_ENOTINDEFINE)) /*@new_attribute_needs_define_mode*/
__CPROVER_ensures(IMPLIES(g_norm_ret[0] == NC_NOERR && IN_find0 >= 0 && IN_find1 >= 0 && !SELF && !(IN_flags & NC_MODE_DEF) && XSZ(IN_in_type, IN_in_nelems) > XSZ(IN_out_type, IN_out_nelems),
                          __CPROVER_return_value == NC_ENOTINDEFINE)) /*@larger_value_needs_define_mode*/
__CPROVER_ensures(IMPLIES(!COPIED || SELF, TAB->ndefined == NATT && g_hi_calls == 0 && g_wh_calls == 0 && gat[1].xsz == XSZ(IN_out_type, IN_out_nelems) && vat[0].xsz == XSZ(IN_out_type, IN_out_nelems) &&
                          gat[0].nelems == IN_out_nelems && vat[1].xtype == IN_out_type)) /*@failed_or_self_copy_changes_nothing*/
__CPROVER_ensures(IMPLIES(COPIED && !SELF, g_wh_calls == ((IN_flags & NC_MODE_DEF) ? 0 : 1))) /*@data_mode_copy_rewrites_header*/
;

void harness(void)
{
    ghost_setup(0);
    IN_varid = nondet_int(); IN_flags = nondet_int(); IN_find0 = nondet_int(); IN_find1 = nondet_int(); IN_same = nondet_bool();
    IN_in_type = nondet_int(); IN_out_type = nondet_int(); IN_in_nelems = nondet_ll(); IN_out_nelems = nondet_ll();
    __CPROVER_assume(IN_varid == NC_GLOBAL || IN_varid == 0); __CPROVER_assume(IN_find0 >= -1 && IN_find0 < NATT && IN_find1 >= -1 && IN_find1 < NATT);
    __CPROVER_assume((IN_in_type == NC_INT || IN_in_type == NC_BYTE) && (IN_out_type == NC_INT || IN_out_type == NC_BYTE) && IN_in_nelems >= 0 && IN_in_nelems <= 4 && IN_out_nelems >= 0 && IN_out_nelems <= 4);
    static const char n1[] = "a"; IN_name = n1; IN_oldname_ptr = malloc(4); IN_oldname_ptr[3] = 0;
    /* every attribute of the destination tables has the same (symbolic) shape; the one the lookup names owns the value buffer IN_out_xvalue */
    long long oxsz = XSZ(IN_out_type, IN_out_nelems), ixsz = XSZ(IN_in_type, IN_in_nelems);
    IN_out_xvalue = oxsz ? malloc(oxsz) : NULL; IN_out_xvalue2 = oxsz ? malloc(oxsz) : NULL;
    NC_attr **gv = malloc(PNC_ARRAY_GROWBY * sizeof(NC_attr *)), **vv = malloc(PNC_VATTR_ARRAY_GROWBY * sizeof(NC_attr *));
    for (int k = 0; k < NATT; k++) {
        gat[k].name = IN_oldname_ptr; gat[k].name_len = 1; gat[k].xtype = IN_out_type; gat[k].nelems = IN_out_nelems; gat[k].xsz = oxsz; gat[k].xvalue = IN_out_xvalue; gv[k] = &gat[k];
        vat[k] = gat[k]; vat[k].xvalue = IN_out_xvalue2; vv[k] = &vat[k];
        iat[k].name = IN_oldname_ptr; iat[k].name_len = 1; iat[k].xtype = IN_in_type; iat[k].nelems = IN_in_nelems; iat[k].xsz = ixsz; iat[k].xvalue = ixsz ? malloc(ixsz) : NULL; iatp[k] = &iat[k];
    }
    IN_out_value = (IN_varid == NC_GLOBAL) ? gv : vv;
    nc.attrs.ndefined = NATT; nc.attrs.value = gv; nc.attrs.hash_size = 2; nc.attrs.nameT = gT;
    var0.attrs.ndefined = NATT; var0.attrs.value = vv; var0.attrs.hash_size = 2; var0.attrs.nameT = vT; varp[0] = &var0; nc.vars.ndefined = 1; nc.vars.value = varp;
    nc_in.attrs.ndefined = NATT; nc_in.attrs.value = iatp; nc_in.attrs.hash_size = 2; nc_in.attrs.nameT = iT; nc_in.vars.ndefined = 0;
    nc.safe_mode = 0; nc.nprocs = 1; nc.flags = IN_flags;
    /* self copy: the source is the destination's own global table, so the source attribute has the destination's shape */
    __CPROVER_assume(!IN_same || (IN_in_type == IN_out_type && IN_in_nelems == IN_out_nelems));
    __CPROVER_assume(!SELF || IN_find0 == IN_find1);   /* the same name looked up twice in the same table */
    g_norm_calls = 0; g_find_calls = 0; g_hr_calls = 0; g_wh_calls = 0; g_hi_calls = 0; g_find_ret[0] = IN_find0; g_find_ret[1] = IN_find1; g_find_ret[2] = -1;
    int r = ncmpio_copy_att(IN_same ? &nc : &nc_in, NC_GLOBAL, n1, &nc, IN_varid);
    CANARY(r == NC_NOERR && IN_find1 >= 0 && ixsz > oxsz, "grown_in_place"); CANARY(r == NC_NOERR && IN_find1 >= 0 && ixsz < oxsz && IN_in_nelems > IN_out_nelems, "shorter_bytes_more_elements");
    CANARY(r == NC_NOERR && IN_find1 < 0, "appended"); CANARY(r == NC_ENOTINDEFINE, "needs_define_mode"); CANARY(r == NC_NOERR && SELF, "self_copy");
}
#endif
