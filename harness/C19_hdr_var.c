/* C19 / C04: hdr_get_NC_var (static, ncmpio_header_get.c) under arbitrary header content.  The scalar
 * decoders are replaced by contracts that deliver the next value of an arbitrary ghost value stream
 * (their agreement with the file bytes is C04); what is checked here is what the parser does with
 * the values: limits enforced before use, error or well-formed variable, nothing leaked. */
#include <config.h>
#include <stdlib.h>
#include <pnetcdf.h>
#include <dispatch.h>
#include <ncmpio_NC.h>
#include "vh.h"
#ifndef NDIMS_C
#define NDIMS_C 2
#endif
#ifndef FMTVER
#define FMTVER 1
#endif
#define HG(sym) FL(ncmpio_header_get, sym)
unsigned long long g_vals[8]; int g_vi;      /* ghost: the values the header delivers, in order */
int g_new_calls, g_free_calls; _Bool g_new_null; NC_var *g_var_ptr; char *g_name_ptr, *g_null_ptr;
static NC_var g_var_obj; static int g_dimids[NDIMS_C ? NDIMS_C : 1];   /* the object ncmpio_new_NC_var hands out */
#define VAL(i) (FMTVER < 5 ? (unsigned long long)(unsigned)g_vals[i] : g_vals[i])
int G;
int IN_f_ndims; _Bool g_dec_failed;   /* ghost: some scalar decoder call reported a failure (read error) */

#define NEXTVAL_CONTRACT \
__CPROVER_requires(g_vi >= 0 && g_vi < 7) \
__CPROVER_assigns(*xp, g_vi, g_dec_failed) \
/* a scalar decoder fails only through hdr_fetch (an I/O error code), never with the non-fatal NC_ENULLPAD */ \
__CPROVER_ensures(__CPROVER_return_value <= 0 && __CPROVER_return_value != NC_ENULLPAD) \
__CPROVER_ensures(g_vi == __CPROVER_old(g_vi) + 1 && g_dec_failed == (__CPROVER_old(g_dec_failed) || __CPROVER_return_value != NC_NOERR))
int HG(hdr_get_uint32)(bufferinfo *gbp, uint *xp) NEXTVAL_CONTRACT
__CPROVER_ensures(IMPLIES(__CPROVER_return_value == NC_NOERR, *xp == (uint)g_vals[__CPROVER_old(g_vi)]));
int HG(hdr_get_uint64)(bufferinfo *gbp, uint64 *xp) NEXTVAL_CONTRACT
__CPROVER_ensures(IMPLIES(__CPROVER_return_value == NC_NOERR, *xp == g_vals[__CPROVER_old(g_vi)]));
int HG(hdr_get_nc_type)(bufferinfo *gbp, nc_type *xp)
__CPROVER_assigns(*xp) __CPROVER_ensures(__CPROVER_return_value <= 0 && __CPROVER_return_value != NC_ENULLPAD)
__CPROVER_ensures(IMPLIES(__CPROVER_return_value == NC_NOERR, *xp >= NC_BYTE && *xp <= NC_UINT64));
int HG(hdr_get_NC_name)(bufferinfo *gbp, char **namep, size_t *name_len)
__CPROVER_assigns(*namep, *name_len)
/* pointer_equals: the name is a heap object the parser may later free */
__CPROVER_ensures(__CPROVER_return_value == NC_NOERR ==> __CPROVER_pointer_equals(*namep, g_name_ptr))
__CPROVER_ensures(__CPROVER_return_value != NC_NOERR ==> __CPROVER_pointer_equals(*namep, g_null_ptr))
__CPROVER_ensures(*name_len <= 3);
int HG(hdr_get_NC_attrarray)(bufferinfo *gbp, NC_attrarray *ncap)
__CPROVER_assigns(*ncap) __CPROVER_ensures(1);
/* allocation of the variable object: a stub with a body (a pointer handed out by a replaced contract
 * makes every later store a case split over all objects - OOM).  The object is g_var_obj with a dimids
 * array of exactly NDIMS_C entries; allocation failure is outside every property. */
NC_var *ncmpio_new_NC_var(char *name, size_t name_len, int ndims)
{
    __CPROVER_assert(ndims >= 0 && ndims <= NC_MAX_VAR_DIMS, "allocation_only_after_the_limit_check");
    __CPROVER_assert(ndims == NDIMS_C && g_new_calls == 0, "one_allocation_of_the_announced_shape");
    g_new_calls++;
    return &g_var_obj;
}
void ncmpio_free_NC_var(NC_var *varp)
{
    __CPROVER_assert(varp == &g_var_obj && g_new_calls == 1 && g_free_calls == 0, "only_the_allocated_variable_is_released_once");
    g_free_calls++;
}
int ncmpii_xlen_nc_type(nc_type xtype, int *size) __CPROVER_assigns(*size) __CPROVER_ensures(1);

int HG(hdr_get_NC_var)(bufferinfo *gbp, NC_var **varpp, int f_ndims)
__CPROVER_requires(gbp->version == FMTVER && f_ndims >= 0 && f_ndims <= NC_MAX_DIMS && f_ndims == IN_f_ndims && g_vi == 0 && g_new_calls == 0 && g_free_calls == 0 && !g_dec_failed && G >= 0 && G < (NDIMS_C ? NDIMS_C : 1))
/* instance: the header announces NDIMS_C dimensions, or more than the limit */
__CPROVER_requires(VAL(0) == NDIMS_C || VAL(0) > NC_MAX_VAR_DIMS)
__CPROVER_frees(g_name_ptr)
__CPROVER_assigns(*varpp, g_vi, g_dec_failed, g_new_calls, g_new_null, g_free_calls, __CPROVER_object_whole(&g_var_obj), __CPROVER_object_whole(g_dimids))
__CPROVER_ensures(IMPLIES(g_dec_failed, __CPROVER_return_value != NC_NOERR && __CPROVER_return_value != NC_ENULLPAD)) /*@C11_failed_header_read_never_becomes_success*/
__CPROVER_ensures(IMPLIES(VAL(0) > NC_MAX_VAR_DIMS, __CPROVER_return_value != NC_NOERR && g_new_calls == 0)) /*@too_many_dimensions_rejected_before_allocation*/
#define ACCEPTED (__CPROVER_return_value == NC_NOERR || __CPROVER_return_value == NC_ENULLPAD)
__CPROVER_ensures(IMPLIES(ACCEPTED, *varpp == &g_var_obj && !g_new_null && g_new_calls == 1 && g_free_calls == 0)) /*@accepted_variable_is_the_allocated_one_and_not_released*/
__CPROVER_ensures(IMPLIES(ACCEPTED, g_var_obj.ndims == NDIMS_C && g_var_obj.dimids == g_dimids)) /*@accepted_variable_shape_fields_intact*/
__CPROVER_ensures(IMPLIES(ACCEPTED && NDIMS_C > 0, g_dimids[G] >= 0 && g_dimids[G] < f_ndims && g_dimids[G] == (int)VAL(1 + G))) /*@accepted_variable_names_only_existing_dimensions*/
__CPROVER_ensures(IMPLIES(NDIMS_C > 0 && VAL(1 + G) >= (unsigned long long)IN_f_ndims && VAL(0) == NDIMS_C && (G == 0 || VAL(1) < (unsigned long long)IN_f_ndims),
      __CPROVER_return_value != NC_NOERR && __CPROVER_return_value != NC_ENULLPAD)) /*@dimension_id_out_of_range_rejected*/
__CPROVER_ensures(IMPLIES(__CPROVER_return_value != NC_NOERR && __CPROVER_return_value != NC_ENULLPAD && !g_new_null && g_new_calls == 1, g_free_calls == 1)) /*@C17_rejected_variable_released*/
;

static bufferinfo gb;
void harness(void)
{
    G = nondet_int(); IN_f_ndims = nondet_int(); g_vi = 0; g_new_calls = 0; g_free_calls = 0; g_new_null = 0; g_dec_failed = 0;
    for (int i = 0; i < 8; i++) g_vals[i] = nondet_ull();
    g_name_ptr = malloc(4); g_null_ptr = NULL; gb.version = FMTVER; g_var_obj.ndims = NDIMS_C; g_var_obj.dimids = g_dimids; g_var_ptr = &g_var_obj;
    NC_var *v = NULL;
    int r = HG(hdr_get_NC_var)(&gb, &v, IN_f_ndims);
    CANARY(r == NC_NOERR, "accepted"); CANARY(r == NC_EBADDIM, "ebaddim"); CANARY(r == NC_EMAXDIMS, "emaxdims");
}
