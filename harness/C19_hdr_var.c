/* C19 / C04: hdr_get_NC_var (static, ncmpio_header_get.c) under arbitrary header content.  The scalar
 * decoders are replaced by contracts that deliver the next value of an arbitrary ghost value stream
 * (their agreement with the file bytes is C04); what is checked here is what the parser does with
 * the values: limits enforced before use, error or well-formed variable, nothing leaked. */
#include <config.h>
#include <stdlib.h>
#include <pnetcdf.h>
#include <dispatch.h>
#include <ncmpio_NC.h>
#include "vh.h"
#ifndef NDIMS_C
#define NDIMS_C 2
#endif
#ifndef FMTVER
#define FMTVER 1
#endif
#define HG(sym) FL(ncmpio_header_get, sym)
unsigned long long g_vals[8]; int g_vi;      /* ghost: the values the header delivers, in order */
int g_new_calls, g_free_calls; NC_var *g_newvar; NC_var *g_var_ptr; char *g_name_ptr, *g_null_ptr;
int G;
int IN_f_ndims;

#define NEXTVAL_CONTRACT \
__CPROVER_requires(g_vi >= 0 && g_vi < 7) \
__CPROVER_assigns(*xp, g_vi) \
__CPROVER_ensures(g_vi == __CPROVER_old(g_vi) + 1)
int HG(hdr_get_uint32)(bufferinfo *gbp, uint *xp) NEXTVAL_CONTRACT
__CPROVER_ensures(IMPLIES(__CPROVER_return_value == NC_NOERR, *xp == (uint)g_vals[__CPROVER_old(g_vi)]));
int HG(hdr_get_uint64)(bufferinfo *gbp, uint64 *xp) NEXTVAL_CONTRACT
__CPROVER_ensures(IMPLIES(__CPROVER_return_value == NC_NOERR, *xp == g_vals[__CPROVER_old(g_vi)]));
int HG(hdr_get_nc_type)(bufferinfo *gbp, nc_type *xp)
__CPROVER_assigns(*xp) __CPROVER_ensures(IMPLIES(__CPROVER_return_value == NC_NOERR, *xp >= NC_BYTE && *xp <= NC_UINT64));
int HG(hdr_get_NC_name)(bufferinfo *gbp, char **namep, size_t *name_len)
__CPROVER_assigns(*namep, *name_len)
/* pointer_equals: the name is a heap object the parser may later free */
__CPROVER_ensures(__CPROVER_return_value == NC_NOERR ==> __CPROVER_pointer_equals(*namep, g_name_ptr))
__CPROVER_ensures(__CPROVER_return_value != NC_NOERR ==> __CPROVER_pointer_equals(*namep, g_null_ptr))
__CPROVER_ensures(*name_len <= 3);
int HG(hdr_get_NC_attrarray)(bufferinfo *gbp, NC_attrarray *ncap)
__CPROVER_assigns(__CPROVER_object_whole(ncap)) __CPROVER_ensures(1);
/* allocation of the variable object: dimids array sized by the ndims it is given */
NC_var *ncmpio_new_NC_var(char *name, size_t name_len, int ndims)
__CPROVER_requires(ndims >= 0 && ndims <= NC_MAX_VAR_DIMS) /*@allocation_only_after_the_limit_check*/
__CPROVER_requires(ndims == NDIMS_C && g_new_calls == 0)
__CPROVER_assigns(g_new_calls, g_newvar)
__CPROVER_ensures(g_new_calls == 1 && __CPROVER_return_value == g_newvar)
/* the object is provided by the harness (g_var_obj with a dimids array of exactly NDIMS_C entries) */
__CPROVER_ensures(__CPROVER_return_value == NULL || __CPROVER_pointer_equals(__CPROVER_return_value, g_var_ptr))
;
void ncmpio_free_NC_var(NC_var *varp)
__CPROVER_requires(varp != NULL && varp == g_newvar)
__CPROVER_assigns(g_free_calls) __CPROVER_ensures(g_free_calls == __CPROVER_old(g_free_calls) + 1);
int ncmpii_xlen_nc_type(nc_type xtype, int *size) __CPROVER_assigns(*size) __CPROVER_ensures(1);

int HG(hdr_get_NC_var)(bufferinfo *gbp, NC_var **varpp, int f_ndims)
__CPROVER_requires(gbp->version == FMTVER && f_ndims >= 0 && f_ndims <= NC_MAX_DIMS && f_ndims == IN_f_ndims && g_vi == 0 && g_new_calls == 0 && g_free_calls == 0 && G >= 0 && G < (NDIMS_C ? NDIMS_C : 1))
__CPROVER_frees(g_name_ptr)
__CPROVER_assigns(*varpp, g_vi, g_new_calls, g_newvar, g_free_calls, __CPROVER_object_whole(g_var_ptr), __CPROVER_object_whole(g_var_ptr->dimids))
__CPROVER_ensures(IMPLIES(g_vals[0] > NC_MAX_VAR_DIMS, __CPROVER_return_value != NC_NOERR && g_new_calls == 0)) /*@too_many_dimensions_rejected_before_allocation*/
__CPROVER_ensures(IMPLIES(__CPROVER_return_value == NC_NOERR || __CPROVER_return_value == NC_ENULLPAD, *varpp == g_newvar && g_newvar != NULL && g_free_calls == 0 &&
      (*varpp)->ndims == NDIMS_C && IMPLIES(NDIMS_C > 0, (*varpp)->dimids[G] >= 0 && (*varpp)->dimids[G] < f_ndims))) /*@accepted_variable_names_only_existing_dimensions*/
__CPROVER_ensures(IMPLIES(NDIMS_C > 0 && g_vals[1 + G] >= (unsigned long long)IN_f_ndims && g_vals[0] == NDIMS_C && (G == 0 || g_vals[1] < (unsigned long long)IN_f_ndims),
      __CPROVER_return_value != NC_NOERR && __CPROVER_return_value != NC_ENULLPAD)) /*@dimension_id_out_of_range_rejected*/
__CPROVER_ensures(IMPLIES(__CPROVER_return_value != NC_NOERR && __CPROVER_return_value != NC_ENULLPAD && g_newvar != NULL && g_new_calls == 1, g_free_calls == 1)) /*@C17_rejected_variable_released*/
;

static bufferinfo gb; static NC_var g_var_obj; static int g_dimids[NDIMS_C ? NDIMS_C : 1];
void harness(void)
{
    G = nondet_int(); IN_f_ndims = nondet_int(); g_vi = 0; g_new_calls = 0; g_free_calls = 0; g_newvar = NULL;
    for (int i = 0; i < 8; i++) g_vals[i] = nondet_ull();
    g_name_ptr = malloc(4); g_null_ptr = NULL; gb.version = FMTVER; g_var_obj.ndims = NDIMS_C; g_var_obj.dimids = g_dimids; g_var_ptr = &g_var_obj;
    NC_var *v = NULL;
    int r = HG(hdr_get_NC_var)(&gb, &v, IN_f_ndims);
    CANARY(r == NC_NOERR, "accepted"); CANARY(r == NC_EBADDIM, "ebaddim"); CANARY(r == NC_EMAXDIMS, "emaxdims");
}
