/* common harness helpers */
#ifndef VH_H
#define VH_H
#include <stdint.h>
#include <stddef.h>
#define IMPLIES(a, b) (!(a) || (b))
#define IFF(a, b) ((!!(a)) == (!!(b)))
int nondet_int(void);
unsigned nondet_uint(void);
long long nondet_ll(void);
unsigned long long nondet_ull(void);
unsigned char nondet_uchar(void);
_Bool nondet_bool(void);
size_t nondet_size(void);
void *nondet_ptr(void);
/* a canary must FAIL: it shows that the outcome it names is reachable under the preconditions */
#define CANARY(cond, name) __CPROVER_assert(!(cond), "canary:" name)
/* name of a file-local (static) symbol of a real translation unit, as exported by
 * goto-cc --export-file-local-symbols */
#define FL(file, sym) __CPROVER_file_local_##file##_c_##sym
#endif
