/* C04 / C19 / C11: the header parser of src/drivers/ncmpio/ncmpio_header_get.c (real code; static
 * functions reached through exported file-local symbols) against the logical-stream spec.
 * Instance constants (enumerated by the runner): CHUNK (read chunk size), PPOS (position of the
 * parser inside its window), FMTVER (1, 2, 5), NAMEB (bound on name / value bytes). */
#include <config.h>
#include <stdlib.h>
#include <pnetcdf.h>
#include <dispatch.h>
#include <ncmpio_NC.h>
#include "ghost.h"
#include "stream_spec.h"

#ifndef PPOS
#define PPOS 4
#endif
#ifndef FMTVER
#define FMTVER 1
#endif
#ifndef NAMEB
#define NAMEB 8
#endif
#define HG(sym) FL(ncmpio_header_get, sym)
#define W (FMTVER == 5 ? 8 : 4)     /* width of NON_NEG in this format */
#define RND4(n) ((((n) + 3) / 4) * 4)

#define SPEC_L_EXPR(g) ((g)->offset - (g)->chunk + ((g)->pos - (g)->base))
#define old_L (__CPROVER_old(gbp->offset) - __CPROVER_old(gbp->chunk) + (__CPROVER_old(gbp->pos) - __CPROVER_old(gbp->base)))   /* stream position before the call */
#define old_get_size __CPROVER_old(gbp->get_size)
unsigned long long IN_file_len; int IN_safe_mode, IN_coll_mode;

/* ---- hdr_fetch: refill the window, keeping the unread slack ------------------------------ */
int HG(hdr_fetch)(bufferinfo *gbp)
#ifdef CONTRACT_FETCH_INITIAL
/* first call of ncmpio_hdr_get_NC: empty window, offset 0 */
__CPROVER_requires(gbp->chunk == CHUNK && gbp->base != NULL && gbp->end == gbp->base + CHUNK && gbp->pos == gbp->base && gbp->offset == 0 && gbp->get_size == 0)
#else
__CPROVER_requires(spec_stream_inv(gbp) && gbp->pos > gbp->base)
#endif
__CPROVER_requires(g_rank == 0 && g_file_mode == 1)
__CPROVER_assigns(__CPROVER_object_whole(gbp->base), gbp->pos, gbp->offset, gbp->get_size, GHOST_ASSIGNS)
/* pointer_equals (not ==): at a call site replaced by this contract the havocked gbp->pos must become
 * a pointer INTO the window object, otherwise CBMC reads through an unknown pointer */
__CPROVER_ensures(__CPROVER_return_value == NC_NOERR ==> __CPROVER_pointer_equals(gbp->pos, gbp->base)) /*@pos_rewound*/
__CPROVER_ensures(IMPLIES(__CPROVER_return_value == NC_NOERR, spec_stream_inv(gbp))) /*@window_holds_stream*/
#ifdef CONTRACT_FETCH_INITIAL
__CPROVER_ensures(IMPLIES(__CPROVER_return_value == NC_NOERR, SPEC_L_EXPR(gbp) == 0)) /*@stream_starts_at_zero*/
#else
__CPROVER_ensures(IMPLIES(__CPROVER_return_value == NC_NOERR, SPEC_L_EXPR(gbp) == old_L)) /*@stream_position_kept*/
#endif
__CPROVER_ensures(gbp->get_size >= old_get_size && gbp->get_size <= old_get_size + CHUNK) /*@get_size_counts_bytes_read*/
__CPROVER_ensures(IMPLIES(g_io_failed, __CPROVER_return_value != NC_NOERR)) /*@C11_io_failure_reported*/
__CPROVER_ensures(IMPLIES(__CPROVER_return_value != NC_NOERR, g_io_failed)) /*@no_spurious_error*/
;

/* ---- scalar decoders ----------------------------------------------------------------------- */
#define SCALAR_CONTRACT(width, valexpr, tagname) \
__CPROVER_requires(spec_stream_inv(gbp) && g_rank == 0 && g_file_mode == 1) \
__CPROVER_assigns(*xp, __CPROVER_object_whole(gbp->base), gbp->pos, gbp->offset, gbp->get_size, GHOST_ASSIGNS)

int HG(hdr_get_uint32)(bufferinfo *gbp, uint *xp)
SCALAR_CONTRACT(4, 0, 0)
__CPROVER_ensures(IMPLIES(__CPROVER_return_value == NC_NOERR, *xp == (uint)spec_stream_be(old_L, 4))) /*@value_is_be32_of_stream*/
__CPROVER_ensures(__CPROVER_return_value == NC_NOERR ==> __CPROVER_pointer_in_range_dfcc(gbp->base, gbp->pos, gbp->end)) /*@pos_in_window*/
__CPROVER_ensures(IMPLIES(__CPROVER_return_value == NC_NOERR, spec_stream_inv(gbp) && SPEC_L_EXPR(gbp) == old_L + 4)) /*@advances_4*/
__CPROVER_ensures(IMPLIES(__CPROVER_return_value != NC_NOERR, g_io_failed)) /*@no_spurious_error*/
__CPROVER_ensures(IMPLIES(g_io_failed, __CPROVER_return_value != NC_NOERR)) /*@C11_io_failure_reported*/
;
int HG(hdr_get_uint64)(bufferinfo *gbp, uint64 *xp)
SCALAR_CONTRACT(8, 0, 0)
__CPROVER_ensures(IMPLIES(__CPROVER_return_value == NC_NOERR, *xp == spec_stream_be(old_L, 8))) /*@value_is_be64_of_stream*/
__CPROVER_ensures(__CPROVER_return_value == NC_NOERR ==> __CPROVER_pointer_in_range_dfcc(gbp->base, gbp->pos, gbp->end)) /*@pos_in_window*/
__CPROVER_ensures(IMPLIES(__CPROVER_return_value == NC_NOERR, spec_stream_inv(gbp) && SPEC_L_EXPR(gbp) == old_L + 8)) /*@advances_8*/
__CPROVER_ensures(IMPLIES(__CPROVER_return_value != NC_NOERR, g_io_failed)) /*@no_spurious_error*/
__CPROVER_ensures(IMPLIES(g_io_failed, __CPROVER_return_value != NC_NOERR)) /*@C11_io_failure_reported*/
;
int HG(hdr_get_NC_tag)(bufferinfo *gbp, NC_tag *xp)
SCALAR_CONTRACT(4, 0, 0)
__CPROVER_ensures(IMPLIES(__CPROVER_return_value == NC_NOERR, (uint)*xp == (uint)spec_stream_be(old_L, 4))) /*@value_is_be32_of_stream*/
__CPROVER_ensures(__CPROVER_return_value == NC_NOERR ==> __CPROVER_pointer_in_range_dfcc(gbp->base, gbp->pos, gbp->end)) /*@pos_in_window*/
__CPROVER_ensures(IMPLIES(__CPROVER_return_value == NC_NOERR, spec_stream_inv(gbp) && SPEC_L_EXPR(gbp) == old_L + 4)) /*@advances_4*/
__CPROVER_ensures(IMPLIES(__CPROVER_return_value != NC_NOERR, g_io_failed)) /*@no_spurious_error*/
;
/* nc_type: legal range is 1..6 for CDF-1/2 and 1..11 for CDF-5 (format specification) */
#define TYPE_OK(v, ver) ((v) >= 1 && (v) <= ((ver) == 5 ? 11 : 6))
int HG(hdr_get_nc_type)(bufferinfo *gbp, nc_type *xp)
SCALAR_CONTRACT(4, 0, 0)
__CPROVER_requires(gbp->version == 1 || gbp->version == 2 || gbp->version == 5)
__CPROVER_ensures(IMPLIES(TYPE_OK((uint)spec_stream_be(old_L, 4), gbp->version) && !g_io_failed, __CPROVER_return_value == NC_NOERR)) /*@legal_type_accepted*/
__CPROVER_ensures(IMPLIES(__CPROVER_return_value == NC_NOERR, (uint)*xp == (uint)spec_stream_be(old_L, 4) && TYPE_OK((uint)*xp, gbp->version))) /*@value_is_type_of_stream*/
__CPROVER_ensures(IMPLIES(!TYPE_OK((uint)spec_stream_be(old_L, 4), gbp->version) && !g_io_failed, __CPROVER_return_value == NC_EBADTYPE)) /*@illegal_type_rejected*/
__CPROVER_ensures(__CPROVER_return_value == NC_NOERR ==> __CPROVER_pointer_in_range_dfcc(gbp->base, gbp->pos, gbp->end)) /*@pos_in_window*/
__CPROVER_ensures(IMPLIES(__CPROVER_return_value == NC_NOERR, spec_stream_inv(gbp) && SPEC_L_EXPR(gbp) == old_L + 4)) /*@advances_4*/
;

/* ---- name --------------------------------------------------------------------------------- */
#define spec_nonneg(L, version) spec_stream_be((L), (version) == 5 ? 8 : 4)
static inline int spec_bytes_match(const char *p, long long L, unsigned long long n)
{
    for (unsigned k = 0; k < NAMEB; k++) if (k < n && (unsigned char)p[k] != FILEB(L + k)) return 0;
    return 1;
}
int HG(hdr_get_NC_name)(bufferinfo *gbp, char **namep, size_t *name_len)
__CPROVER_requires(spec_stream_inv(gbp) && g_rank == 0 && g_file_mode == 1)
__CPROVER_requires(gbp->version == FMTVER)
#ifdef NLEN   /* enumerated instance: the encoded length is the compile-time constant NLEN (<= NAMEB) */
__CPROVER_requires(spec_nonneg(SPEC_L_EXPR(gbp), FMTVER) == NLEN)
#endif
#ifdef NAME_OVERSIZE   /* instance: the encoded length exceeds NC_MAX_NAME */
__CPROVER_requires(spec_nonneg(SPEC_L_EXPR(gbp), FMTVER) > NC_MAX_NAME)
#endif
#ifdef NAME_BOUNDARY   /* instance: the encoded length is exactly NC_MAX_NAME, the longest legal name; the first refill fails */
__CPROVER_requires(spec_nonneg(SPEC_L_EXPR(gbp), FMTVER) == NC_MAX_NAME && g_fail_at == 0)
#endif
__CPROVER_assigns(*namep, *name_len, __CPROVER_object_whole(gbp->base), gbp->pos, gbp->offset, gbp->get_size, GHOST_ASSIGNS)
__CPROVER_ensures(IMPLIES(spec_nonneg(old_L, FMTVER) > NC_MAX_NAME && !g_io_failed, __CPROVER_return_value == NC_EMAXNAME)) /*@oversize_name_rejected*/
__CPROVER_ensures(IMPLIES(spec_nonneg(old_L, FMTVER) <= NC_MAX_NAME && !g_io_failed, __CPROVER_return_value == NC_NOERR)) /*@valid_name_accepted*/
__CPROVER_ensures(IMPLIES(__CPROVER_return_value == NC_EMAXNAME, spec_nonneg(old_L, FMTVER) > NC_MAX_NAME)) /*@NC_EMAXNAME_only_for_a_name_longer_than_NC_MAX_NAME*/
__CPROVER_ensures(IMPLIES(__CPROVER_return_value == NC_NOERR, *name_len == spec_nonneg(old_L, FMTVER))) /*@length_from_stream*/
__CPROVER_ensures(IMPLIES(__CPROVER_return_value == NC_NOERR, *namep != NULL && __CPROVER_r_ok(*namep, *name_len + 1) && (*namep)[*name_len] == 0)) /*@nul_terminated*/
__CPROVER_ensures(IMPLIES(__CPROVER_return_value == NC_NOERR, spec_bytes_match(*namep, old_L + W, *name_len))) /*@bytes_from_stream_across_chunks*/
__CPROVER_ensures(__CPROVER_return_value == NC_NOERR ==> __CPROVER_pointer_in_range_dfcc(gbp->base, gbp->pos, gbp->end)) /*@pos_in_window*/
__CPROVER_ensures(IMPLIES(__CPROVER_return_value == NC_NOERR, spec_stream_inv(gbp) && SPEC_L_EXPR(gbp) == old_L + W + RND4((long long)*name_len))) /*@advances_width_plus_padded_length*/
__CPROVER_ensures(IMPLIES(g_io_failed, __CPROVER_return_value != NC_NOERR)) /*@C11_io_failure_reported*/
;

/* ------------------------------------------------------------------------------------------- */
static char window[CHUNK];
static bufferinfo gb;
static void setup(void)
{
    ghost_setup(INJECT);
    __CPROVER_assume(g_rank == 0);
    g_file_mode = 1;
    __CPROVER_havoc_slice(g_file, G_FILE_MAX);   /* arbitrary file content */
    IN_file_len = nondet_ull(); __CPROVER_assume(IN_file_len <= G_FILE_MAX); g_file_len = (long long)IN_file_len;
    IN_safe_mode = nondet_int(); IN_coll_mode = nondet_int();
    __CPROVER_assume(IN_safe_mode == 0 || IN_safe_mode == 1); __CPROVER_assume(IN_coll_mode == 0 || IN_coll_mode == 1);
    gb.comm = MPI_COMM_WORLD; gb.collective_fh = MPI_FILE_NULL; gb.get_size = 0; gb.version = FMTVER;
    gb.safe_mode = IN_safe_mode; gb.coll_mode = IN_coll_mode;
    gb.chunk = CHUNK; gb.base = window; gb.end = window + CHUNK;
#ifdef NLEN
    /* the length field (at stream position PPOS) is concrete so that allocation and copy sizes are
     * concrete for the solver; every other byte of the file stays symbolic */
    g_file_len = G_FILE_MAX;   /* concrete length: truncation is covered by the scalar-decoder instances */
    for (int k = 0; k < W; k++) g_file[PPOS + k] = (k == W - 1) ? NLEN : 0;
#endif
#ifdef NAME_OVERSIZE
    g_file_len = G_FILE_MAX;
    for (int k = 0; k < W; k++) g_file[PPOS + k] = (k == W - 2) ? 1 : (k == W - 1) ? OVERSIZE_LOW : 0;   /* 256 + low */
#endif
#ifdef NAME_BOUNDARY
    g_file_len = G_FILE_MAX;
    for (int k = 0; k < W; k++) g_file[PPOS + k] = (k == W - 2) ? 1 : 0;   /* exactly 256 = NC_MAX_NAME */
    g_fail_at = 0;   /* the length field ends the window: the refill for the name's first byte fails, which ends the path */
#endif
#ifdef CONTRACT_FETCH_INITIAL
    gb.pos = window; gb.offset = 0;
#else
    gb.pos = window + PPOS; gb.offset = CHUNK;
    for (int k = 0; k < CHUNK; k++) window[k] = (k >= PPOS) ? (char)FILEB(k) : (char)nondet_uchar();
#endif
}

#ifdef H_fetch
void harness(void)
{
    setup();
    int r = HG(hdr_fetch)(&gb);
    CANARY(r == NC_NOERR, "noerr");
#if INJECT
    CANARY(r != NC_NOERR, "failed");
#endif
    CANARY(r == NC_NOERR && gb.get_size < CHUNK - (CHUNK - PPOS) , "short_read");
}
#endif
#ifdef H_uint32
void harness(void) { setup(); uint v; int r = HG(hdr_get_uint32)(&gb, &v); CANARY(r == NC_NOERR, "noerr"); CANARY(r == NC_NOERR && g_io_n > 0, "fetched"); }
#endif
#ifdef H_uint64
void harness(void) { setup(); uint64 v; int r = HG(hdr_get_uint64)(&gb, &v); CANARY(r == NC_NOERR, "noerr"); CANARY(r == NC_NOERR && g_io_n > 0, "fetched"); }
#endif
#ifdef H_tag
void harness(void) { setup(); NC_tag v; int r = HG(hdr_get_NC_tag)(&gb, &v); CANARY(r == NC_NOERR, "noerr"); }
#endif
#ifdef H_type
void harness(void) { setup(); nc_type v; int r = HG(hdr_get_nc_type)(&gb, &v); CANARY(r == NC_NOERR, "noerr"); CANARY(r == NC_EBADTYPE, "ebadtype"); }
#endif
#ifdef H_name
void harness(void)
{
    setup(); char *name; size_t len;
    int r = HG(hdr_get_NC_name)(&gb, &name, &len);
#ifdef NLEN
    CANARY(r == NC_NOERR && len == NLEN, "noerr");
#endif
#ifdef NAME_OVERSIZE
    CANARY(r == NC_EMAXNAME, "emaxname");
#endif
#ifdef NAME_BOUNDARY
    CANARY(r != NC_NOERR && r != NC_EMAXNAME && g_io_failed, "longest_legal_name_passes_the_length_test_and_reaches_the_refill");
#endif
}
#endif
#ifdef H_name_plain
/* bounded stand-in without DFCC instrumentation (the dynamic-frame bookkeeping of symbolic-length
 * memcpy/malloc exhausts memory for this function): the same clauses as the contract of
 * hdr_get_NC_name, asserted after a call of the real function with real callees */
#define CLAUSE(name, e) __CPROVER_assert(e, "clause:" name)
void harness(void)
{
    setup(); char *name; size_t len;
    bufferinfo *gbp = &gb;
    long long L0 = SPEC_L_EXPR(gbp);
    int r = HG(hdr_get_NC_name)(gbp, &name, &len);
    unsigned long long N = spec_nonneg(L0, FMTVER);
    CLAUSE("oversize_name_rejected", IMPLIES(N > NC_MAX_NAME && !g_io_failed, r == NC_EMAXNAME));
    CLAUSE("valid_name_accepted", IMPLIES(N <= NC_MAX_NAME && !g_io_failed, r == NC_NOERR));
    CLAUSE("C11_io_failure_reported", IMPLIES(g_io_failed, r != NC_NOERR));
    if (r == NC_NOERR) {
        CLAUSE("length_from_stream", len == N);
        CLAUSE("nul_terminated", name != NULL && __CPROVER_r_ok(name, len + 1) && name[len] == 0);
        CLAUSE("bytes_from_stream_across_chunks", spec_bytes_match(name, L0 + W, len));
        CLAUSE("stream_invariant_kept", spec_stream_inv(gbp));
        CLAUSE("advances_width_plus_padded_length", SPEC_L_EXPR(gbp) == L0 + W + RND4((long long)len));
        free(name);
    }
    else CLAUSE("no_name_returned_on_error", name == NULL);
#ifdef NLEN
    CANARY(r == NC_NOERR && len == NLEN, "noerr");
    CANARY(r == NC_NOERR && g_io_n > 0, "crossed_chunk");
#endif
#ifdef NAME_OVERSIZE
    CANARY(r == NC_EMAXNAME, "emaxname");
#endif
}
#endif
