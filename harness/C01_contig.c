/* C01: is_request_contiguous (static, ncmpio_filetype.c) decides whether a put/get request is handed to
 * MPI-IO as ONE byte range starting at the first element (no file type is built).  If it says yes the
 * request must really be one run of the file: the elements it addresses, in row-major order, must be
 * consecutive.  (A needless "no" only costs a derived datatype.)
 * File geometry: fixed variable, or the only record variable of the file (records packed back to back):
 * element stride of dimension d is prod_{e>d} shape[e]; a record variable among several: consecutive
 * records of the variable are separated by the other variables' records.
 * Instance: NDIMS dimensions, lengths 1..SMAX symbolic, counts 0..shape symbolic. */
#include <config.h>
#include <stdlib.h>
#include <pnetcdf.h>
#include <dispatch.h>
#include <ncmpio_NC.h>
#include "vh.h"
#ifndef NDIMS
#define NDIMS 2
#endif
#ifndef SMAX
#define SMAX 6
#endif
#define FT(sym) FL(ncmpio_filetype, sym)
long long IN_shape[3], IN_count[3]; int IN_isrec, IN_nrecvars;
#define C(d) (NDIMS > (d) ? IN_count[d] : 1)
#define S(d) (NDIMS > (d) ? IN_shape[d] : 1)
#define NELEMS (C(0) * C(1) * C(2))
/* distance in elements between the first and the last element addressed, plus one */
#define SPAN ((C(0) - 1) * S(1) * S(2) + (C(1) - 1) * S(2) + (C(2) - 1) + 1)
#define EMPTY (C(0) == 0 || C(1) == 0 || C(2) == 0)
#define INTERLEAVED (IN_isrec && IN_nrecvars > 1)
#define ONE_RUN (EMPTY || (SPAN == NELEMS && (!INTERLEAVED || C(0) <= 1)))

int FT(is_request_contiguous)(int isRecVar, int numRecVars, int ndims, const MPI_Offset *shape, const MPI_Offset *start, const MPI_Offset *count)
__CPROVER_requires(ndims == NDIMS && isRecVar == IN_isrec && numRecVars == IN_nrecvars && (isRecVar == 0 || (isRecVar == 1 && numRecVars >= 1)) && numRecVars >= 0 && numRecVars <= 3 && (NDIMS > 0 || !isRecVar))
__CPROVER_requires(NDIMS < 1 || (shape[0] == IN_shape[0] && count[0] == IN_count[0] && IN_shape[0] >= 1 && IN_shape[0] <= SMAX && IN_count[0] >= 0 && IN_count[0] <= IN_shape[0]))
__CPROVER_requires(NDIMS < 2 || (shape[1] == IN_shape[1] && count[1] == IN_count[1] && IN_shape[1] >= 1 && IN_shape[1] <= SMAX && IN_count[1] >= 0 && IN_count[1] <= IN_shape[1]))
__CPROVER_requires(NDIMS < 3 || (shape[2] == IN_shape[2] && count[2] == IN_count[2] && IN_shape[2] >= 1 && IN_shape[2] <= SMAX && IN_count[2] >= 0 && IN_count[2] <= IN_shape[2]))
__CPROVER_assigns()
__CPROVER_ensures(IMPLIES(__CPROVER_return_value != 0, ONE_RUN)) /*@C01_a_request_declared_contiguous_is_one_run_of_the_file*/
__CPROVER_ensures(IMPLIES(__CPROVER_return_value == 0, !ONE_RUN)) /*@a_one_run_request_is_recognised*/
;

void harness(void)
{
    static MPI_Offset sh[3], st[3], ct[3];
    IN_isrec = nondet_int(); IN_nrecvars = nondet_int(); __CPROVER_assume((IN_isrec == 0 || IN_isrec == 1) && IN_nrecvars >= 0 && IN_nrecvars <= 3 && (!IN_isrec || IN_nrecvars >= 1) && (NDIMS > 0 || !IN_isrec));
    for (int d = 0; d < 3; d++) { IN_shape[d] = nondet_ll(); IN_count[d] = nondet_ll(); __CPROVER_assume(IN_shape[d] >= 1 && IN_shape[d] <= SMAX && IN_count[d] >= 0 && IN_count[d] <= IN_shape[d]);
        sh[d] = IN_shape[d]; ct[d] = IN_count[d]; st[d] = nondet_ll(); }
    /* the record dimension's "shape" is the current number of records for the purpose of this test: a request may span records */
    int r = FT(is_request_contiguous)(IN_isrec, IN_nrecvars, NDIMS, sh, st, ct);
    CANARY(r != 0 && NDIMS > 1 && C(0) > 1, "several_rows_contiguous"); CANARY(r == 0, "noncontiguous"); CANARY(r != 0 && IN_isrec && IN_nrecvars == 1 && C(0) > 1, "several_records_of_the_only_record_variable");
}
