/* ncmpio_write_numrecs (src/drivers/ncmpio/ncmpio_sync.c) under contract.
 * Clauses serve C11 (failure reported), C05 (record count), C03 (bytes of the numrecs field), C08. */
#include <config.h>
#include <pnetcdf.h>
#include <dispatch.h>
#include <ncmpio_NC.h>
#include "ghost.h"

int IN_flags, IN_format, IN_rank, IN_nprocs, IN_num_rec_vars; long long IN_numrecs, IN_new_numrecs;

#define ENFORCE_ncmpio_write_numrecs_TIE 1
#include "sync_contracts.h"

void harness(void)
{
    ghost_setup(1);
    IN_flags = nondet_int(); IN_format = nondet_int(); IN_rank = nondet_int(); IN_nprocs = nondet_int();
    IN_num_rec_vars = nondet_int(); IN_numrecs = nondet_ll(); IN_new_numrecs = nondet_ll();
    NC *ncp;
    int r = ncmpio_write_numrecs(ncp, nondet_ll());
    CANARY(r == NC_NOERR && g_nwrites == 1, "wrote_ok");
    CANARY(r != NC_NOERR && g_io_failed, "failure_reported");
    CANARY(r == NC_EINTOVERFLOW, "eintoverflow");
    CANARY(r == NC_NOERR && g_nwrites == 0, "nothing_to_do");
}
