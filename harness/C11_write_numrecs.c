/* ncmpio_write_numrecs (src/drivers/ncmpio/ncmpio_sync.c) under contract.
 * Clauses serve C11 (failure reported), C05 (record count), C03 (bytes of the numrecs field), C08. */
#include <config.h>
#include <pnetcdf.h>
#include <dispatch.h>
#include <ncmpio_NC.h>
#include "ghost.h"
#include "conv_spec.h"

int IN_flags, IN_format, IN_rank, IN_nprocs, IN_num_rec_vars; long long IN_numrecs, IN_new_numrecs;

#define WRITER(ncp) (!((ncp)->rank > 0) && (ncp)->vars.num_rec_vars > 0)
static inline long long llmax(long long a, long long b) { return a > b ? a : b; }

int ncmpio_write_numrecs(NC *ncp, MPI_Offset new_numrecs)
__CPROVER_requires(__CPROVER_is_fresh(ncp, sizeof(NC)))
__CPROVER_requires(ncp->rank == g_rank && ncp->nprocs == g_nprocs)
__CPROVER_requires(ncp->numrecs >= 0 && new_numrecs >= 0 && ncp->vars.num_rec_vars >= 0)
__CPROVER_requires(ncp->format == 1 || ncp->format == 2 || ncp->format == 5)
__CPROVER_requires(ncp->put_size >= 0 && ncp->put_size < ((long long)1 << 62))   /* statistics counter: no exabyte histories */
__CPROVER_requires(g_io_n == 0 && g_coll_n == 0 && g_io_failed == 0)
#ifdef ENFORCE_ncmpio_write_numrecs
__CPROVER_requires(ncp->flags == IN_flags && ncp->format == IN_format && ncp->rank == IN_rank && ncp->nprocs == IN_nprocs &&
                   ncp->vars.num_rec_vars == IN_num_rec_vars && ncp->numrecs == IN_numrecs && new_numrecs == IN_new_numrecs) /* tie */
#endif
__CPROVER_assigns(ncp->numrecs, ncp->put_size, GHOST_ASSIGNS)
/* C11 */
__CPROVER_ensures(IMPLIES(g_io_failed, __CPROVER_return_value != NC_NOERR)) /*@C11_io_failure_reported*/
/* C05 */
__CPROVER_ensures(ncp->numrecs >= __CPROVER_old(ncp->numrecs)) /*@C05_numrecs_never_decreases*/
__CPROVER_ensures(IMPLIES(WRITER(ncp) && __CPROVER_return_value == NC_NOERR, ncp->numrecs == llmax(__CPROVER_old(ncp->numrecs), new_numrecs))) /*@C05_root_numrecs_is_max*/
__CPROVER_ensures(IMPLIES(!WRITER(ncp), ncp->numrecs == __CPROVER_old(ncp->numrecs))) /*@C05_nonwriter_unchanged*/
__CPROVER_ensures(IMPLIES(WRITER(ncp) && (new_numrecs > __CPROVER_old(ncp->numrecs) || (ncp->flags & NC_NDIRTY)) &&
                          !(ncp->format < 5 && llmax(__CPROVER_old(ncp->numrecs), new_numrecs) > NC_MAX_INT), g_nwrites == 1)) /*@C05_header_written_when_grown_or_dirty*/
/* C03: the field written is numrecs, big-endian, at byte 4, 4 bytes (CDF-1/2) or 8 bytes (CDF-5) */
__CPROVER_ensures(IMPLIES(g_nwrites == 1 && g_io_count[0] > 0,
      g_io_off[0] == 4 && g_io_count[0] == (ncp->format == 5 ? 8 : 4) && g_io_type[0] == MPI_BYTE &&
      spec_be(g_io_bytes[0], ncp->format == 5 ? 8 : 4) == (unsigned long long)ncp->numrecs)) /*@C03_numrecs_field_encoding*/
/* C08: the number of collective calls depends only on rank-invariant state and the role */
__CPROVER_ensures(IMPLIES(!(ncp->flags & NC_HCOLL), g_coll_n == 0)) /*@C08_no_collective_without_HCOLL*/
;

void harness(void)
{
    ghost_setup(1);
    IN_flags = nondet_int(); IN_format = nondet_int(); IN_rank = nondet_int(); IN_nprocs = nondet_int();
    IN_num_rec_vars = nondet_int(); IN_numrecs = nondet_ll(); IN_new_numrecs = nondet_ll();
    NC *ncp;
    int r = ncmpio_write_numrecs(ncp, nondet_ll());
    CANARY(r == NC_NOERR && g_nwrites == 1, "wrote_ok");
    CANARY(r != NC_NOERR && g_io_failed, "failure_reported");
    CANARY(r == NC_EINTOVERFLOW, "eintoverflow");
    CANARY(r == NC_NOERR && g_nwrites == 0, "nothing_to_do");
}
