/* C01 (flexible API, "any MPI buffer layout"): ncmpii_dtype_decode (src/drivers/common/dtype_decode.c)
 * tells the put/get paths what a buffer datatype is made of; when it says the type is a contiguous run
 * of elements, the library copies / converts / byte-swaps straight from the start of the caller's
 * buffer, so the answer may be "contiguous" only if the type map really is one run starting at
 * displacement 0.  Checked here for MPI_Type_create_subarray buffer types over MPI_INT (the recursion
 * on the element type is assumed to satisfy the same contract: --enforce-contract-rec).
 * MPI type introspection (get_envelope / get_contents) is a harness stub describing the two types. */
#include <config.h>
#include <stdlib.h>
#include <mpi.h>
#include <pnetcdf.h>
#include <dispatch.h>
#include <common.h>
#include "vh.h"
#ifndef NDIM
#define NDIM 2
#endif
#define SUBT ((MPI_Datatype)0x200040UL)
int IN_sizes[3], IN_subsizes[3], IN_starts[3], IN_order; int g_type_frees;
int MPI_Type_get_envelope(MPI_Datatype t, int *ni, int *na, int *nd, int *combiner)
{
    if (t == SUBT) { *ni = 3 * NDIM + 2; *na = 0; *nd = 1; *combiner = MPI_COMBINER_SUBARRAY; }
    else { *ni = 0; *na = 0; *nd = 0; *combiner = MPI_COMBINER_NAMED; }
    return MPI_SUCCESS;
}
int MPI_Type_get_contents(MPI_Datatype t, int ni, int na, int nd, int ints[], MPI_Aint adds[], MPI_Datatype types[])
{
    __CPROVER_assert(t == SUBT && ni == 3 * NDIM + 2 && nd == 1, "contents_asked_for_the_derived_type_only");
    ints[0] = NDIM;
    for (int d = 0; d < 3; d++) if (d < NDIM) { ints[1 + d] = IN_sizes[d]; ints[1 + NDIM + d] = IN_subsizes[d]; ints[1 + 2 * NDIM + d] = IN_starts[d]; }
    ints[1 + 3 * NDIM] = IN_order; types[0] = MPI_INT;
    return MPI_SUCCESS;
}
int MPI_Type_size(MPI_Datatype t, int *size) { *size = 4; return MPI_SUCCESS; }
int MPI_Type_free(MPI_Datatype *t) { g_type_frees++; *t = MPI_DATATYPE_NULL; return MPI_SUCCESS; }
#define SS(d) (NDIM > (d) ? (long long)IN_subsizes[d] : 1)
#define FULL(d) (NDIM <= (d) || IN_subsizes[d] == IN_sizes[d])

int ncmpii_dtype_decode(MPI_Datatype dtype, MPI_Datatype *ptype_p, int *el_size_p, MPI_Offset *nelems_p, int *isderived_p, int *iscontig_of_ptypes)
__CPROVER_requires((dtype == SUBT || dtype == MPI_INT) && ptype_p != NULL && el_size_p != NULL && nelems_p != NULL && isderived_p != NULL && iscontig_of_ptypes != NULL)
__CPROVER_assigns(*ptype_p, *el_size_p, *nelems_p, *isderived_p, *iscontig_of_ptypes, g_type_frees)
__CPROVER_ensures(__CPROVER_return_value == NC_NOERR && *ptype_p == MPI_INT && *el_size_p == 4) /*@element_type_and_size_found*/
__CPROVER_ensures(IMPLIES(dtype == MPI_INT, *nelems_p == 1 && *iscontig_of_ptypes == 1 && *isderived_p == 0 && g_type_frees == __CPROVER_old(g_type_frees))) /*@predefined_type_is_one_contiguous_element*/
__CPROVER_ensures(IMPLIES(dtype == SUBT, *nelems_p == SS(0) * SS(1) * SS(2) && *isderived_p == 1)) /*@subarray_type_holds_the_product_of_its_subsizes*/
__CPROVER_ensures(IMPLIES(dtype == SUBT && *iscontig_of_ptypes != 0, FULL(0) && FULL(1) && FULL(2))) /*@C01_type_declared_contiguous_is_one_run_from_the_start_of_the_buffer*/
;

void harness(void)
{
    for (int d = 0; d < 3; d++) { IN_sizes[d] = nondet_int(); IN_subsizes[d] = nondet_int(); IN_starts[d] = nondet_int();
        __CPROVER_assume(IN_sizes[d] >= 1 && IN_sizes[d] <= 1000 && IN_subsizes[d] >= 1 && IN_subsizes[d] <= IN_sizes[d] && IN_starts[d] >= 0 && IN_starts[d] <= IN_sizes[d] - IN_subsizes[d]); }
    IN_order = nondet_int(); __CPROVER_assume(IN_order == MPI_ORDER_C || IN_order == MPI_ORDER_FORTRAN);
    MPI_Datatype pt = MPI_DATATYPE_NULL; int es = -1, der = -1, contig = 1; MPI_Offset ne = 0; g_type_frees = 0;
    int r = ncmpii_dtype_decode(SUBT, &pt, &es, &ne, &der, &contig);
    CANARY(r == NC_NOERR && contig == 0, "noncontiguous"); CANARY(r == NC_NOERR && ne > 1, "several_elements");
}
