/* C07: name hash table operations of src/drivers/ncmpio/ncmpio_hash_func.c on enumerated table
 * shapes (HS buckets with NB0/NB1 entries); ids symbolic.  The hash function itself is replaced by
 * its contract (range + ghost key), so colliding and non-colliding names are both covered. */
#include <config.h>
#include <stdlib.h>
#include <pnetcdf.h>
#include <dispatch.h>
#include <ncmpio_NC.h>
#include "vh.h"
#define HS 2
#ifndef NB0
#define NB0 2
#endif
#ifndef NB1
#define NB1 1
#endif
#define NOBJ (NB0 + NB1)
static const int NBv[HS] = { NB0, NB1 };
int old_num[HS], old_list[HS][4];
int GB, GP;                     /* ghost entry: bucket GB, position GP */
const char *g_name_a, *g_name_b; int g_key_a, g_key_b;   /* ghost: hash keys of the two names in play */
int IN_id[6], IN_del, IN_key_a, IN_key_b;

int ncmpio_Bernstein_hash(const char *str_name, int hsize)
__CPROVER_requires(hsize >= 1)
__CPROVER_assigns()
__CPROVER_ensures(__CPROVER_return_value >= 0 && __CPROVER_return_value < hsize)
__CPROVER_ensures(__CPROVER_return_value == (str_name == g_name_a ? g_key_a : g_key_b))
;

static inline int spec_pos_of(int b, int id)   /* old position of id in bucket b, or -1 */
{
    for (int p = 0; p < 4; p++) if (p < old_num[b] && old_list[b][p] == id) return p;
    return -1;
}
#define FOUND(id) (spec_pos_of(g_key_a, (id)) >= 0)
#define RENUM(x, d) ((x) > (d) ? (x) - 1 : (x))

#if !defined(H_insert) && !defined(H_replace)
/* ---- delete: entry removed, later ids renumbered, order kept, nothing else touched ---- */
int ncmpio_hash_delete(NC_nametable *nameT, int hash_size, const char *name, int id)
__CPROVER_requires(hash_size == HS && name == g_name_a && g_key_a >= 0 && g_key_a < HS && GB >= 0 && GB < HS && GP >= 0 && GP < old_num[GB])
__CPROVER_assigns(__CPROVER_object_whole(nameT))
__CPROVER_assigns(nameT[0].list != NULL: __CPROVER_object_whole(nameT[0].list))
__CPROVER_assigns(nameT[1].list != NULL: __CPROVER_object_whole(nameT[1].list))
__CPROVER_frees(nameT[0].list, nameT[1].list)
__CPROVER_ensures(IFF(__CPROVER_return_value == NC_NOERR, FOUND(id)) && (__CPROVER_return_value == NC_NOERR || __CPROVER_return_value == NC_ENOTATT)) /*@found_iff_in_its_bucket*/
__CPROVER_ensures(IMPLIES(!FOUND(id), nameT[GB].num == old_num[GB] && nameT[GB].list[GP] == old_list[GB][GP])) /*@not_found_changes_nothing*/
__CPROVER_ensures(IMPLIES(FOUND(id), nameT[GB].num == old_num[GB] - (GB == g_key_a ? 1 : 0))) /*@bucket_count_drops_only_in_its_bucket*/
__CPROVER_ensures(IMPLIES(FOUND(id) && !(GB == g_key_a && old_list[GB][GP] == id),
      nameT[GB].list[GP - ((GB == g_key_a && GP > spec_pos_of(g_key_a, id)) ? 1 : 0)] == RENUM(old_list[GB][GP], id))) /*@other_entries_kept_in_order_and_renumbered*/
__CPROVER_ensures(IMPLIES(FOUND(id) && nameT[GB].num == 0, nameT[GB].list == NULL)) /*@empty_bucket_released*/
;

#endif
#ifdef H_insert
/* ---- insert: id appended to the bucket of its name, every existing entry untouched ---- */
void ncmpio_hash_insert(NC_nametable *nameT, int hash_size, const char *name, int id)
__CPROVER_requires(hash_size == HS && name == g_name_a && g_key_a >= 0 && g_key_a < HS && GB >= 0 && GB < HS && GP >= 0 && (GP < old_num[GB] || old_num[GB] == 0))
__CPROVER_assigns(__CPROVER_object_whole(nameT))
__CPROVER_assigns(nameT[0].list != NULL: __CPROVER_object_whole(nameT[0].list))
__CPROVER_assigns(nameT[1].list != NULL: __CPROVER_object_whole(nameT[1].list))
__CPROVER_frees(nameT[0].list, nameT[1].list)
__CPROVER_ensures(nameT[g_key_a].num == old_num[g_key_a] + 1 && nameT[g_key_a].list[old_num[g_key_a]] == id) /*@appended_to_bucket_of_its_name*/
__CPROVER_ensures(nameT[1 - g_key_a].num == old_num[1 - g_key_a]) /*@other_bucket_count_unchanged*/
__CPROVER_ensures(IMPLIES(old_num[GB] > 0, nameT[GB].list[GP] == old_list[GB][GP])) /*@existing_entries_untouched*/
;
#endif
#ifdef H_replace
/* ---- replace (rename): id leaves the bucket of the old name, is appended to the bucket of the new name; nothing renumbered ---- */
int ncmpio_hash_replace(NC_nametable *nameT, int hash_size, const char *old_name, const char *new_name, int id)
__CPROVER_requires(hash_size == HS && old_name == g_name_a && new_name == g_name_b && g_key_a >= 0 && g_key_a < HS && g_key_b >= 0 && g_key_b < HS && GB >= 0 && GB < HS && GP >= 0 && (GP < old_num[GB] || old_num[GB] == 0))
__CPROVER_assigns(__CPROVER_object_whole(nameT))
__CPROVER_assigns(nameT[0].list != NULL: __CPROVER_object_whole(nameT[0].list))
__CPROVER_assigns(nameT[1].list != NULL: __CPROVER_object_whole(nameT[1].list))
__CPROVER_frees(nameT[0].list, nameT[1].list)
__CPROVER_ensures(IFF(__CPROVER_return_value == NC_NOERR, FOUND(id)) && (__CPROVER_return_value == NC_NOERR || __CPROVER_return_value == NC_ENOTATT)) /*@found_iff_in_bucket_of_old_name*/
__CPROVER_ensures(IMPLIES(!FOUND(id), nameT[GB].num == old_num[GB] && IMPLIES(old_num[GB] > 0, nameT[GB].list[GP] == old_list[GB][GP]))) /*@not_found_changes_nothing*/
__CPROVER_ensures(IMPLIES(FOUND(id), nameT[GB].num == old_num[GB] - (GB == g_key_a ? 1 : 0) + (GB == g_key_b ? 1 : 0))) /*@one_entry_leaves_old_bucket_one_enters_new_bucket*/
__CPROVER_ensures(IMPLIES(FOUND(id), nameT[g_key_b].list[nameT[g_key_b].num - 1] == id)) /*@id_findable_under_new_name*/
__CPROVER_ensures(IMPLIES(FOUND(id) && old_num[GB] > 0 && !(GB == g_key_a && old_list[GB][GP] == id),
      nameT[GB].list[GP - ((GB == g_key_a && GP > spec_pos_of(g_key_a, id)) ? 1 : 0)] == old_list[GB][GP])) /*@other_entries_kept_in_order_same_ids*/
;
#endif

static NC_nametable tab[HS];
void harness(void)
{
    GB = nondet_int(); GP = nondet_int(); IN_del = nondet_int(); IN_key_a = nondet_int();
    static const char na[] = "a", nb[] = "b";
    g_name_a = na; g_name_b = nb; g_key_a = IN_key_a; g_key_b = nondet_int();
    __CPROVER_assume(g_key_a >= 0 && g_key_a < HS && g_key_b >= 0 && g_key_b < HS);
    int n = 0;
    for (int b = 0; b < HS; b++) {
        tab[b].num = NBv[b]; old_num[b] = NBv[b];
        tab[b].list = NBv[b] ? malloc(sizeof(int) * PNC_HLIST_GROWBY) : NULL;
        for (int p = 0; p < 4; p++) if (p < NBv[b]) {
            IN_id[n] = nondet_int(); __CPROVER_assume(IN_id[n] >= 0 && IN_id[n] < NOBJ);
            for (int m = 0; m < 6; m++) if (m < n) __CPROVER_assume(IN_id[m] != IN_id[n]);   /* ids are a permutation of 0..NOBJ-1 */
            tab[b].list[p] = IN_id[n]; old_list[b][p] = IN_id[n]; n++;
        }
    }
    __CPROVER_assume(GB >= 0 && GB < HS && GP >= 0 && (GP < NBv[GB] || (NBv[GB] == 0 && GP == 0)));
    __CPROVER_assume(IN_del >= 0 && IN_del < NOBJ + 1);
#if defined(H_insert)
    ncmpio_hash_insert(tab, HS, na, IN_del);
    CANARY(tab[g_key_a].num == 1, "first_in_bucket"); CANARY(tab[g_key_a].num == 5, "list_grown");
#elif defined(H_replace)
    int r = ncmpio_hash_replace(tab, HS, na, nb, IN_del);
    CANARY(r == NC_NOERR && g_key_a != g_key_b, "moved_to_other_bucket"); CANARY(r == NC_NOERR && g_key_a == g_key_b, "same_bucket"); CANARY(r == NC_ENOTATT, "not_found");
    CANARY(r == NC_NOERR && tab[g_key_a].num == 0, "bucket_emptied");
#else
    int r = ncmpio_hash_delete(tab, HS, na, IN_del);
    CANARY(r == NC_NOERR, "deleted"); CANARY(r == NC_ENOTATT, "not_found");
    CANARY(r == NC_NOERR && tab[g_key_a].num == 0, "bucket_emptied");
#endif
}
