/* C14: sanity_check (static, regenerated src/dispatchers/var_getput.c): error choice and documented
 * precedence for every put/get API:  NC_EPERM < NC_EINDEFINE < NC_EINDEP/NC_ENOTINDEP <
 * NC_EGLOBAL/NC_ENOTVAR < NC_ECHAR (first applicable), and no effect on the file object. */
#include <config.h>
#include <stdlib.h>
#include <pnetcdf.h>
#include <dispatch.h>
#include "vh.h"
typedef enum { API_GET, API_PUT, API_IGET, API_IPUT, API_BPUT } IO_type;   /* as in var_getput.m4 */
int IN_flag, IN_varid, IN_io, IN_isColl, IN_nvars, IN_xtype, IN_format; _Bool IN_flex, IN_itype_char;

#define IS_PUT(io) ((io) == API_PUT || (io) == API_IPUT || (io) == API_BPUT)
#define IS_BLK(io) ((io) == API_PUT || (io) == API_GET)
/* reference: the documented error of a put/get call (DEVELOPER_NOTES.md "error code precedence") */
static inline int spec_mode_err(int flag, int format, int nvars, int varid, int xtype, int io, int isColl, int flex, int itype_char)
{
    if (IS_PUT(io) && (flag & NC_MODE_RDONLY)) return NC_EPERM;
    if (IS_BLK(io)) {
        if (format != NC_FORMAT_NETCDF4 && (flag & NC_MODE_DEF)) return NC_EINDEFINE;
        if (isColl && (flag & NC_MODE_INDEP)) return NC_EINDEP;
        if (!isColl && !(flag & NC_MODE_INDEP)) return NC_ENOTINDEP;
    }
    if (varid == NC_GLOBAL) return NC_EGLOBAL;
    if (varid < 0 || varid >= nvars) return NC_ENOTVAR;
    if (flex) return NC_NOERR;
    if (itype_char != (xtype == NC_CHAR)) return NC_ECHAR;
    return NC_NOERR;
}

int FL(var_getput, sanity_check)(PNC *pncp, int varid, IO_type io, MPI_Datatype itype, int isColl)
__CPROVER_requires(__CPROVER_is_fresh(pncp, sizeof(PNC)) && pncp->nvars >= 0 && pncp->nvars <= 2)
__CPROVER_requires(pncp->nvars == 0 || __CPROVER_is_fresh(pncp->vars, 2 * sizeof(PNC_var)))
__CPROVER_requires(io >= API_GET && io <= API_BPUT)
__CPROVER_requires(pncp->flag == IN_flag && pncp->format == IN_format && pncp->nvars == IN_nvars && varid == IN_varid && io == IN_io && isColl == IN_isColl &&
                   IN_flex == (itype == MPI_DATATYPE_NULL) && IN_itype_char == (itype == MPI_CHAR) &&
                   IMPLIES(varid >= 0 && varid < pncp->nvars, pncp->vars[varid].xtype == IN_xtype)) /* tie */
__CPROVER_assigns()
__CPROVER_ensures(__CPROVER_return_value == spec_mode_err(IN_flag, IN_format, IN_nvars, IN_varid, IN_xtype, IN_io, IN_isColl, IN_flex, IN_itype_char)) /*@documented_error_by_precedence*/
;

void harness(void)
{
    IN_flag = nondet_int(); IN_varid = nondet_int(); IN_io = nondet_int(); IN_isColl = nondet_int(); IN_nvars = nondet_int();
    IN_xtype = nondet_int(); IN_format = nondet_int(); IN_flex = nondet_bool(); IN_itype_char = nondet_bool();
    PNC *p; MPI_Datatype t = IN_flex ? MPI_DATATYPE_NULL : IN_itype_char ? MPI_CHAR : MPI_INT;
    int r = FL(var_getput, sanity_check)(p, nondet_int(), nondet_int(), t, nondet_int());
    CANARY(r == NC_NOERR, "noerr"); CANARY(r == NC_EPERM, "eperm"); CANARY(r == NC_EINDEFINE, "eindefine"); CANARY(r == NC_EINDEP, "eindep");
    CANARY(r == NC_ENOTINDEP, "enotindep"); CANARY(r == NC_EGLOBAL, "eglobal"); CANARY(r == NC_ENOTVAR, "enotvar"); CANARY(r == NC_ECHAR, "echar");
}
