/* C15: check_start_count_stride (static, regenerated src/dispatchers/var_getput.c, real code): the
 * argument check every var1/vara/vars/varm put/get/iput/iget/bput goes through before the driver is
 * entered.  Its two leaf checks are replaced by their contracts (contracts/c15_contracts.h, enforced
 * by the jobs of harness/C15_checks.c); the driver's inq_dim is a harness stub with a body (trusted:
 * hands back a non-negative record count or an error).
 *
 * Reference rule (property statement + DEVELOPER_NOTES.md "NC error code precedence":
 * NC_EINVALCOORDS, NC_EEDGE, NC_ESTRIDE in that order; the place of NC_ENEGATIVECNT is not
 * documented, so where a negative count and an edge violation coexist either code is admitted):
 *   dimension i of length L(i) (record dimension: current number of records; a WRITE may start at
 *   any record that the format can number, and is not edge-checked there):
 *     coordinate rule  spec_coord_ok(strict, start[i], count ? count[i] : 1, L(i))
 *     count rule       count[i] >= 0
 *     edge rule        spec_edge_ok(start[i], count[i], stride given and >= 1, stride[i], L(i))
 *     stride rule      stride[i] >= 1 when stride is given
 *   count == NULL is an edge error for vara/vars/varm and means "one element" for var1.
 * The request is accepted iff every rule holds in every dimension; otherwise the code returned is
 * one whose rule is really violated, chosen by the documented precedence.
 * ND (number of dimensions) is an enumerated instance constant; every other input is symbolic. */
#include <config.h>
#include <stdlib.h>
#include <pnetcdf.h>
#include <dispatch.h>
#include "vh.h"
#include "request_spec.h"

#ifndef ND
#define ND 2
#endif

long long IN_st[ND], IN_ct[ND], IN_sd[ND], IN_sh[ND], IN_numrecs;
int IN_recdim, IN_isRead, IN_api, IN_flag, IN_format, IN_inq_err;
_Bool IN_has_start, IN_has_count, IN_has_stride;
/* names used by the tie clauses of the leaf contracts (not enforced here) */
long long IN_start, IN_count, IN_stride, IN_shape; int IN_strict;

/* The 128-bit product (count-1)*stride of the strided edge rule is an UNINTERPRETED function of (count, stride)
 * in this job (Ackermann reduction): g_prod[i] is an arbitrary value per dimension, equal for equal arguments,
 * and both the caller's reference rule and the (replaced) callee contract read it.  check_start_count_stride is
 * thereby verified for every function "prod", the real product included; the leaf job ties check_EEDGE to the
 * real product.  No multiplier is left in this job. */
i128 g_prod[ND]; i128 nondet_i128(void);
static inline int spec_edge_ok_p(spec_off start, spec_off count, spec_off L, i128 prod)
{
    if ((i128)start + (i128)count > (i128)L) return 0;
    if (count == 0) return 1;
    return (i128)start + prod < (i128)L;
}
#if ND == 1
#define PROD(c, s) (((c) == IN_ct[0] && (s) == IN_sd[0]) ? g_prod[0] : ((i128)(c) - 1) * (i128)(s))
#elif ND == 2
#define PROD(c, s) (((c) == IN_ct[0] && (s) == IN_sd[0]) ? g_prod[0] : ((c) == IN_ct[1] && (s) == IN_sd[1]) ? g_prod[1] : ((i128)(c) - 1) * (i128)(s))
#else
#define PROD(c, s) (((c) == IN_ct[0] && (s) == IN_sd[0]) ? g_prod[0] : ((c) == IN_ct[1] && (s) == IN_sd[1]) ? g_prod[1] : \
                    ((c) == IN_ct[2] && (s) == IN_sd[2]) ? g_prod[2] : ((i128)(c) - 1) * (i128)(s))
#endif
#define SPEC_EDGE_STRIDED(st, ct, sd, sh) spec_edge_ok_p(st, ct, sh, PROD(ct, sd))
#define CLAUSE_STRIDED
#include "c15_contracts.h"

static PNC g_pnc; static PNC_var g_var; static PNC_driver g_drv;
static MPI_Offset g_shape[ND], g_start[ND], g_count[ND], g_stride[ND];

/* driver entry (trusted stub with a body): current length of the record dimension */
int drv_inq_dim(void *ncp, int dimid, char *name, MPI_Offset *lenp)
{
    if (IN_inq_err != NC_NOERR) return IN_inq_err;
    *lenp = IN_numrecs;
    return NC_NOERR;
}

#define ISREC     (IN_recdim >= 0)
#define STRICT    ((IN_flag & NC_MODE_STRICT_COORD_BOUND) != 0)
#define CLASSIC   (IN_format <= NC_FORMAT_CDF2 || IN_format == NC_FORMAT_NETCDF4_CLASSIC)
#define LEN(i)    (IN_has_count ? IN_ct[i] : 1)
#define L(i)      (((i) == 0 && ISREC) ? IN_numrecs : IN_sh[i])
#define RECDIM(i) ((i) == 0 && ISREC)
#define RECW(i)   (RECDIM(i) && !IN_isRead)
#define TOO_MANY_RECORDS(i) (RECDIM(i) && CLASSIC && IN_st[i] > NC_MAX_UINT)
#define COORD_BAD(i)   (IN_st[i] < 0 || TOO_MANY_RECORDS(i) || (!RECW(i) && spec_coord_ok(STRICT, IN_st[i], LEN(i), L(i)) == 0))
#define COORD_UNDET(i) (!RECW(i) && spec_coord_ok(STRICT, IN_st[i], LEN(i), L(i)) == -1)
#define NEGCNT(i)      (IN_has_count && IN_ct[i] < 0)
#define EDGE_BAD(i)    (IN_has_count && IN_ct[i] >= 0 && !RECW(i) && \
                        ((IN_has_stride && IN_sd[i] >= 1) ? spec_edge_ok_p(IN_st[i], IN_ct[i], L(i), g_prod[i]) : spec_edge_ok(IN_st[i], IN_ct[i], 0, 1, L(i))) == 0)
#define STRIDE_BAD(i)  (IN_has_count && IN_has_stride && IN_sd[i] <= 0)
#if ND == 1
#define ANY(X) (X(0))
#elif ND == 2
#define ANY(X) (X(0) || X(1))
#else
#define ANY(X) (X(0) || X(1) || X(2))
#endif
#define CNT_NULL_BAD (!IN_has_count && (IN_api == API_VARA || IN_api == API_VARS || IN_api == API_VARM))
#define DRV_OK   (!ISREC || IN_inq_err == NC_NOERR)
#define COORDS_OK (DRV_OK && IN_has_start && !ANY(COORD_BAD))
#define EDGES_OK  (!CNT_NULL_BAD && !ANY(EDGE_BAD) && !ANY(NEGCNT))
#define RET __CPROVER_return_value

int FL(var_getput, check_start_count_stride)(PNC *pncp, int varid, int isRead, NC_api api_kind,
                                             const MPI_Offset *start, const MPI_Offset *count, const MPI_Offset *stride)
__CPROVER_requires(pncp == &g_pnc && varid == 0 && g_pnc.vars == &g_var && g_pnc.driver == &g_drv && g_var.shape == g_shape && g_var.ndims == ND)
__CPROVER_requires(g_var.recdim == IN_recdim && isRead == IN_isRead && api_kind == IN_api && g_pnc.flag == IN_flag && g_pnc.format == IN_format)
__CPROVER_requires(start == (IN_has_start ? g_start : NULL) && count == (IN_has_count ? g_count : NULL) && stride == (IN_has_stride ? g_stride : NULL))
__CPROVER_requires(IN_numrecs >= 0 && IN_inq_err <= 0)
__CPROVER_assigns(ISREC: g_shape[0])
__CPROVER_ensures(IMPLIES(ISREC && IN_inq_err != NC_NOERR, RET == IN_inq_err)) /*@failed_record_count_inquiry_reported*/
__CPROVER_ensures(IMPLIES(DRV_OK, RET == NC_NOERR || RET == NC_EINVALCOORDS || RET == NC_EEDGE || RET == NC_ENEGATIVECNT || RET == NC_ESTRIDE)) /*@only_documented_argument_errors*/
__CPROVER_ensures(IMPLIES(DRV_OK && (!IN_has_start || ANY(COORD_BAD)), RET == NC_EINVALCOORDS)) /*@any_invalid_coordinate_is_NC_EINVALCOORDS_first*/
__CPROVER_ensures(IMPLIES(DRV_OK && RET == NC_EINVALCOORDS, !IN_has_start || ANY(COORD_BAD) || ANY(COORD_UNDET))) /*@NC_EINVALCOORDS_only_for_an_invalid_coordinate*/
__CPROVER_ensures(IMPLIES(COORDS_OK && !EDGES_OK, RET == NC_EEDGE || RET == NC_ENEGATIVECNT || (RET == NC_EINVALCOORDS && ANY(COORD_UNDET)))) /*@edge_or_count_violation_rejected_before_stride*/
__CPROVER_ensures(IMPLIES(DRV_OK && RET == NC_EEDGE, CNT_NULL_BAD || ANY(EDGE_BAD))) /*@NC_EEDGE_only_for_a_request_that_leaves_the_shape*/
__CPROVER_ensures(IMPLIES(DRV_OK && RET == NC_ENEGATIVECNT, ANY(NEGCNT))) /*@NC_ENEGATIVECNT_only_for_a_negative_count*/
__CPROVER_ensures(IMPLIES(COORDS_OK && EDGES_OK && ANY(STRIDE_BAD), RET == NC_ESTRIDE)) /*@non_positive_stride_rejected*/
__CPROVER_ensures(IMPLIES(DRV_OK && RET == NC_ESTRIDE, ANY(STRIDE_BAD))) /*@NC_ESTRIDE_only_for_a_non_positive_stride*/
__CPROVER_ensures(IMPLIES(COORDS_OK && EDGES_OK && !ANY(STRIDE_BAD), RET == NC_NOERR)) /*@request_inside_the_shape_accepted*/
#if ND >= 2
__CPROVER_ensures(g_shape[1] == __CPROVER_old(g_shape[1])) /*@shape_of_fixed_dimensions_untouched*/
#endif
;

void harness(void)
{
    int i;
    IN_recdim = nondet_int(); IN_isRead = nondet_int(); IN_api = nondet_int(); IN_flag = nondet_int(); IN_format = nondet_int();
    IN_inq_err = nondet_int(); IN_numrecs = nondet_ll();
    IN_has_start = nondet_bool(); IN_has_count = nondet_bool(); IN_has_stride = nondet_bool();
    __CPROVER_assume(IN_recdim >= -1 && IN_format >= 1 && IN_format <= 5);
    __CPROVER_assume(IN_api == API_VAR1 || IN_api == API_VARA || IN_api == API_VARS || IN_api == API_VARM);
    for (i = 0; i < ND; i++) {
        IN_st[i] = nondet_ll(); IN_ct[i] = nondet_ll(); IN_sd[i] = nondet_ll(); IN_sh[i] = nondet_ll();
        __CPROVER_assume(IN_sh[i] >= 0);   /* a dimension length is never negative */
        g_prod[i] = nondet_i128();
        __CPROVER_assume(g_prod[i] >= -((i128)1 << 126) && g_prod[i] <= ((i128)1 << 126));   /* range of a product of two 64-bit values */
        g_start[i] = IN_st[i]; g_count[i] = IN_ct[i]; g_stride[i] = IN_sd[i]; g_shape[i] = IN_sh[i];
    }
    for (i = 1; i < ND; i++) for (int j = 0; j < i; j++)   /* functional consistency of the uninterpreted product */
        __CPROVER_assume(IMPLIES(IN_ct[i] == IN_ct[j] && IN_sd[i] == IN_sd[j], g_prod[i] == g_prod[j]));
    g_drv.inq_dim = drv_inq_dim;
    g_var.ndims = ND; g_var.recdim = IN_recdim; g_var.xtype = NC_INT; g_var.shape = g_shape;
    g_pnc.flag = IN_flag; g_pnc.format = IN_format; g_pnc.nvars = 1; g_pnc.vars = &g_var; g_pnc.driver = &g_drv; g_pnc.ncp = NULL;
    int r = FL(var_getput, check_start_count_stride)(&g_pnc, 0, IN_isRead, IN_api,
                IN_has_start ? g_start : NULL, IN_has_count ? g_count : NULL, IN_has_stride ? g_stride : NULL);
    CANARY(r == NC_NOERR && IN_has_stride && IN_ct[0] > 1 && IN_sd[0] > 1, "accepted_strided");
    CANARY(r == NC_NOERR && ISREC && !IN_isRead && IN_st[0] > IN_numrecs, "write_beyond_the_last_record_accepted");
    CANARY(r == NC_EINVALCOORDS && IN_has_start, "einvalcoords");
    CANARY(r == NC_EEDGE && IN_has_count, "eedge");
    CANARY(r == NC_ENEGATIVECNT, "enegativecnt");
    CANARY(r == NC_ESTRIDE, "estride");
    CANARY(r == NC_EEDGE && !IN_has_count, "null_count_vara");
    CANARY(r == NC_NOERR && !IN_has_count, "null_count_var1");
    CANARY(r < 0 && r == IN_inq_err && r != NC_EINVALCOORDS && r != NC_EEDGE, "driver_error");
}
