/* req_commit (static, src/drivers/ncmpio/ncmpio_wait.c), the worker behind ncmpi_wait / wait_all,
 * on an enumerated put queue (NL lead requests, NN0..NN2 sub-requests).  Callees by contract:
 * extract_reqs (marks a ghost-chosen subset NC_REQ_TO_FREE), wait_getput, ncmpii_in_swapn.
 *  C08: one Allreduce first in collective mode whatever this rank has to commit; the write phase is
 *       entered iff the AGREED flag says so.            C11: a write-phase error is returned.
 *  C05: the record count handed to the write phase covers every selected record put.
 *  C13: swapped caller buffers restored exactly once; attached-buffer slots released and the
 *       accounting compacted.                           C02: survivors kept, in order, re-indexed. */
#include <config.h>
#include <stdlib.h>
#include <pnetcdf.h>
#include <dispatch.h>
#include <ncmpio_NC.h>
#include "ghost.h"
#ifndef NL
#define NL 3
#endif
#ifndef NN0
#define NN0 1
#endif
#ifndef NN1
#define NN1 2
#endif
#ifndef NN2
#define NN2 1
#endif
#ifndef SELMASK
#define SELMASK 1
#endif
#define NT (NN0 + (NL > 1 ? NN1 : 0) + (NL > 2 ? NN2 : 0))
#define WT(sym) FL(ncmpio_wait, sym)
static const int NNv[3] = { NN0, NN1, NN2 };
NC_lead_req old_lead[NL]; NC_req old_req[NT];
_Bool g_sel[NL];                    /* ghost: which lead requests this wait completes */
int G;                              /* ghost lead index */
int g_swap_cnt[NL]; static char ubuf[NL][8];
int g_wg_calls, g_wg_rw[2], g_wg_ret[2], g_wg_num[2]; long long g_wg_newnumrecs[2];
int g_extract_ret;
int IN_flag[NL], IN_abuf[NL], IN_coll; long long IN_maxrec[NL], IN_numrecs; _Bool IN_isrec[NL];

void ncmpii_in_swapn(void *buf, MPI_Offset nelems, int esize)
__CPROVER_assigns(__CPROVER_object_whole(buf), __CPROVER_object_whole(g_swap_cnt))
__CPROVER_ensures(g_swap_cnt[0] == __CPROVER_old(g_swap_cnt[0]) + ((buf == (void*)ubuf[0] && esize > 1 && nelems > 0) ? 1 : 0))
#if NL > 1
__CPROVER_ensures(g_swap_cnt[1] == __CPROVER_old(g_swap_cnt[1]) + ((buf == (void*)ubuf[1] && esize > 1 && nelems > 0) ? 1 : 0))
#endif
#if NL > 2
__CPROVER_ensures(g_swap_cnt[2] == __CPROVER_old(g_swap_cnt[2]) + ((buf == (void*)ubuf[2] && esize > 1 && nelems > 0) ? 1 : 0))
#endif
;
static inline int spec_nsel(int g) { int n = 0; for (int k = 0; k < NL; k++) if (k < g && g_sel[k]) n++; return n; }
static inline int spec_nsub(int g) { int n = 0; for (int k = 0; k < NL; k++) if (k < g && g_sel[k]) n += old_lead[k].nonlead_num; return n; }

/* extract_reqs: marks exactly the ghost-chosen leads, reports their counts, hands out their sub-requests */
int WT(extract_reqs)(NC *ncp, int num_reqs, int *req_ids, int *statuses, int *num_r_lead_reqs, int *num_r_reqs, NC_req **get_list,
                     int *num_w_lead_reqs, int *num_w_reqs, NC_req **put_list)
__CPROVER_assigns(*num_r_lead_reqs, *num_r_reqs, *get_list, *num_w_lead_reqs, *num_w_reqs, *put_list, g_extract_ret, __CPROVER_object_whole(ncp->put_lead_list))
/* "all NC errors are negative" (req_commit negates the value) */
__CPROVER_ensures(__CPROVER_return_value <= 0 && __CPROVER_return_value > -1024)
__CPROVER_ensures(g_extract_ret == __CPROVER_return_value && *num_r_lead_reqs == 0 && *num_r_reqs == 0 && *get_list == NULL)
__CPROVER_ensures(*num_w_lead_reqs == spec_nsel(NL) && *num_w_reqs == spec_nsub(NL))
__CPROVER_ensures(ncp->put_lead_list[0].flag == (old_lead[0].flag | (g_sel[0] ? NC_REQ_TO_FREE : 0)) && ncp->put_lead_list[0].id == old_lead[0].id && ncp->put_lead_list[0].buf == old_lead[0].buf &&
                  ncp->put_lead_list[0].xbuf == old_lead[0].xbuf && ncp->put_lead_list[0].abuf_index == old_lead[0].abuf_index && ncp->put_lead_list[0].varp == old_lead[0].varp &&
                  ncp->put_lead_list[0].nelems == old_lead[0].nelems && ncp->put_lead_list[0].max_rec == old_lead[0].max_rec &&
                  ncp->put_lead_list[0].nonlead_off == old_lead[0].nonlead_off && ncp->put_lead_list[0].nonlead_num == old_lead[0].nonlead_num)
#if NL > 1
__CPROVER_ensures(ncp->put_lead_list[1].flag == (old_lead[1].flag | (g_sel[1] ? NC_REQ_TO_FREE : 0)) && ncp->put_lead_list[1].id == old_lead[1].id && ncp->put_lead_list[1].buf == old_lead[1].buf &&
                  ncp->put_lead_list[1].xbuf == old_lead[1].xbuf && ncp->put_lead_list[1].abuf_index == old_lead[1].abuf_index && ncp->put_lead_list[1].varp == old_lead[1].varp &&
                  ncp->put_lead_list[1].nelems == old_lead[1].nelems && ncp->put_lead_list[1].max_rec == old_lead[1].max_rec &&
                  ncp->put_lead_list[1].nonlead_off == old_lead[1].nonlead_off && ncp->put_lead_list[1].nonlead_num == old_lead[1].nonlead_num)
#endif
#if NL > 2
__CPROVER_ensures(ncp->put_lead_list[2].flag == (old_lead[2].flag | (g_sel[2] ? NC_REQ_TO_FREE : 0)) && ncp->put_lead_list[2].id == old_lead[2].id && ncp->put_lead_list[2].buf == old_lead[2].buf &&
                  ncp->put_lead_list[2].xbuf == old_lead[2].xbuf && ncp->put_lead_list[2].abuf_index == old_lead[2].abuf_index && ncp->put_lead_list[2].varp == old_lead[2].varp &&
                  ncp->put_lead_list[2].nelems == old_lead[2].nelems && ncp->put_lead_list[2].max_rec == old_lead[2].max_rec &&
                  ncp->put_lead_list[2].nonlead_off == old_lead[2].nonlead_off && ncp->put_lead_list[2].nonlead_num == old_lead[2].nonlead_num)
#endif
;
/* wait_getput: its contract as far as req_commit uses it (enforced in C11/wait_getput) + call record */
int WT(wait_getput)(NC *ncp, int num_reqs, NC_req *reqs, int rw_flag, int coll_indep, MPI_Offset newnumrecs)
__CPROVER_requires(g_wg_calls >= 0 && g_wg_calls < 2)
__CPROVER_assigns(ncp->numrecs, ncp->flags, ncp->put_size, g_wg_calls, __CPROVER_object_whole(g_wg_rw), __CPROVER_object_whole(g_wg_ret), __CPROVER_object_whole(g_wg_num),
                  __CPROVER_object_whole(g_wg_newnumrecs), GH_COLL, GH_IO)
__CPROVER_ensures(g_wg_calls == __CPROVER_old(g_wg_calls) + 1 && g_wg_rw[__CPROVER_old(g_wg_calls)] == rw_flag && g_wg_ret[__CPROVER_old(g_wg_calls)] == __CPROVER_return_value &&
                  g_wg_num[__CPROVER_old(g_wg_calls)] == num_reqs && g_wg_newnumrecs[__CPROVER_old(g_wg_calls)] == newnumrecs)
__CPROVER_ensures(IMPLIES(__CPROVER_old(g_wg_calls) == 1, g_wg_rw[0] == __CPROVER_old(g_wg_rw[0]) && g_wg_ret[0] == __CPROVER_old(g_wg_ret[0]) && g_wg_num[0] == __CPROVER_old(g_wg_num[0]) && g_wg_newnumrecs[0] == __CPROVER_old(g_wg_newnumrecs[0])))
__CPROVER_ensures(IMPLIES(__CPROVER_old(g_coll_n) > 0, g_coll_kind[0] == __CPROVER_old(g_coll_kind[0])) && g_coll_n >= __CPROVER_old(g_coll_n))
;
static inline long long spec_needed_numrecs(void)   /* what the completed record puts need */
{
    long long m = 0;
    for (int k = 0; k < NL; k++) if (g_sel[k] && IN_isrec[k] && !(old_lead[k].flag & NC_REQ_SKIP) && old_lead[k].max_rec > m) m = old_lead[k].max_rec;
    return m;
}
static inline int spec_abuf_wf(const NC *ncp)
{
    long long s = 0;
    for (int k = 0; k < NL; k++) if (k < ncp->abuf->tail) s += ncp->abuf->occupy_table[k].req_size;
    return ncp->abuf->tail >= 0 && ncp->abuf->tail <= NL && ncp->abuf->size_used == s && (ncp->abuf->tail == 0 || ncp->abuf->occupy_table[ncp->abuf->tail - 1].is_used);
}
#define NEWPOS (G - spec_nsel(G))
#define IS_COLLECTIVE (coll_indep == NC_REQ_COLL && g_nprocs > 1)

int WT(req_commit)(NC *ncp, int num_reqs, int *req_ids, int *statuses, int coll_indep)
__CPROVER_requires(G >= 0 && G < NL && ncp->my_aggr < 0 && (coll_indep == NC_REQ_COLL || coll_indep == NC_REQ_INDEP) && ncp->nprocs == g_nprocs && ncp->numrecs == IN_numrecs && ncp->numrecs >= 0)
__CPROVER_requires(g_coll_n == 0 && g_wg_calls == 0 && ncp->numLeadPutReqs == NL && ncp->numLeadGetReqs == 0)
__CPROVER_assigns(__CPROVER_object_whole(ncp), __CPROVER_object_whole(ncp->put_lead_list), __CPROVER_object_whole(ncp->put_list), __CPROVER_object_whole(ncp->abuf),
                  __CPROVER_object_whole(ncp->abuf->occupy_table), __CPROVER_object_whole(g_swap_cnt), __CPROVER_object_whole(ubuf), g_extract_ret, g_wg_calls,
                  __CPROVER_object_whole(g_wg_rw), __CPROVER_object_whole(g_wg_ret), __CPROVER_object_whole(g_wg_num), __CPROVER_object_whole(g_wg_newnumrecs), GH_COLL, GH_IO)
__CPROVER_frees(ncp->put_lead_list, ncp->put_list)
__CPROVER_frees((old_lead[0].flag & NC_REQ_XBUF_TO_BE_FREED) && old_lead[0].abuf_index < 0: old_lead[0].xbuf)
#if NL > 1
__CPROVER_frees((old_lead[1].flag & NC_REQ_XBUF_TO_BE_FREED) && old_lead[1].abuf_index < 0: old_lead[1].xbuf)
#endif
#if NL > 2
__CPROVER_frees((old_lead[2].flag & NC_REQ_XBUF_TO_BE_FREED) && old_lead[2].abuf_index < 0: old_lead[2].xbuf)
#endif
/* C08 */
__CPROVER_ensures(IMPLIES(IS_COLLECTIVE, g_coll_n >= 1 && g_coll_kind[0] == COLL_ALLREDUCE)) /*@C08_allreduce_first_whatever_this_rank_commits*/
__CPROVER_ensures(IMPLIES(IS_COLLECTIVE && g_agreed_ll[0] == 0 && g_extract_ret == NC_NOERR, g_wg_calls == 0 || g_wg_rw[0] != NC_REQ_RD)) /*@C08_read_phase_only_if_agreed*/
/* C11 */
__CPROVER_ensures(IMPLIES(g_wg_calls >= 1 && g_wg_ret[0] != NC_NOERR, __CPROVER_return_value != NC_NOERR)) /*@C11_write_phase_error_returned*/
__CPROVER_ensures(IMPLIES(g_wg_calls == 2 && g_wg_ret[1] != NC_NOERR, __CPROVER_return_value != NC_NOERR)) /*@C11_read_phase_error_returned*/
/* C05 */
__CPROVER_ensures(IMPLIES(g_wg_calls >= 1 && g_wg_rw[0] == NC_REQ_WR, g_wg_newnumrecs[0] >= spec_needed_numrecs())) /*@C05_record_count_for_write_phase_covers_selected_record_puts*/
/* C02 */
__CPROVER_ensures(IMPLIES(g_extract_ret == NC_NOERR && (g_wg_calls > 0 || spec_nsel(NL) == 0 || !IS_COLLECTIVE), ncp->numLeadPutReqs == NL - spec_nsel(NL))) /*@C02_lead_count_drops_by_number_completed*/
__CPROVER_ensures(IMPLIES(!g_sel[G] && ncp->numLeadPutReqs == NL - spec_nsel(NL) && spec_nsel(NL) > 0, ncp->put_lead_list[NEWPOS].id == old_lead[G].id && ncp->put_lead_list[NEWPOS].buf == old_lead[G].buf &&
      ncp->put_lead_list[NEWPOS].flag == old_lead[G].flag && ncp->put_lead_list[NEWPOS].nonlead_num == old_lead[G].nonlead_num)) /*@C02_pending_request_kept_in_order*/
/* C13 */
__CPROVER_ensures(IMPLIES(ncp->numLeadPutReqs == NL - spec_nsel(NL) && spec_nsel(NL) > 0,
      g_swap_cnt[G] == ((g_sel[G] && (old_lead[G].flag & NC_REQ_BUF_BYTE_SWAP) && old_lead[G].nelems > 0) ? 1 : 0))) /*@C13_swapped_buffer_restored_exactly_for_completed*/
__CPROVER_ensures(IMPLIES(ncp->numLeadPutReqs == NL - spec_nsel(NL) && spec_nsel(NL) > 0 && old_lead[G].abuf_index >= 0,
      ncp->abuf->occupy_table[old_lead[G].abuf_index].is_used == (g_sel[G] ? 0 : 1))) /*@C13_abuf_slot_released_iff_completed*/
__CPROVER_ensures(IMPLIES(ncp->numLeadPutReqs == NL - spec_nsel(NL) && spec_nsel(NL) > 0, spec_abuf_wf(ncp))) /*@C13_abuf_space_reclaimed_after_partial_wait*/
;

static NC nc; static NC_var var[NL]; static NC_buf abuf; static NC_buf_status table[NL]; static char pool[NL][8]; static MPI_Offset shp[NL][1];
void harness(void)
{
    ghost_setup(0);
    G = nondet_int(); __CPROVER_assume(G >= 0 && G < NL);
    NC_lead_req *leads = malloc(NL * sizeof(NC_lead_req));
    NC_req *reqs = malloc(NT * sizeof(NC_req));
    int off = 0, lastused = -1;
    IN_coll = nondet_int(); IN_numrecs = nondet_ll(); __CPROVER_assume(IN_numrecs >= 0 && IN_numrecs < 1000000);
    __CPROVER_assume(IN_coll == NC_REQ_COLL || IN_coll == NC_REQ_INDEP);
    for (int k = 0; k < NL; k++) {
        IN_flag[k] = nondet_int(); IN_abuf[k] = nondet_int(); IN_maxrec[k] = nondet_ll(); IN_isrec[k] = nondet_bool(); g_sel[k] = (SELMASK >> k) & 1;   /* which requests this wait completes: enumerated */
        __CPROVER_assume(IN_maxrec[k] >= 0 && IN_maxrec[k] < 1000000);
        shp[k][0] = IN_isrec[k] ? NC_UNLIMITED : 9; var[k].shape = shp[k]; var[k].ndims = 1; var[k].xsz = 4;
        leads[k].id = 2 * k; leads[k].flag = IN_flag[k] & (NC_REQ_BUF_BYTE_SWAP | NC_REQ_XBUF_TO_BE_FREED | NC_REQ_SKIP | NC_REQ_BUF_TYPE_IS_CONTIG);
        leads[k].nonlead_off = off; leads[k].nonlead_num = NNv[k]; leads[k].buf = ubuf[k]; leads[k].varp = &var[k];
        leads[k].nelems = nondet_int(); __CPROVER_assume(leads[k].nelems >= 0 && leads[k].nelems <= 2); leads[k].max_rec = IN_maxrec[k];
        leads[k].status = NULL; leads[k].start = NULL; leads[k].buftype = MPI_INT; leads[k].imaptype = MPI_DATATYPE_NULL; leads[k].itype = MPI_INT; leads[k].bufcount = 1;
        leads[k].abuf_index = (IN_abuf[k] & 1) ? k : -1;
        if (leads[k].abuf_index >= 0) { leads[k].xbuf = pool[k]; leads[k].flag &= ~(NC_REQ_XBUF_TO_BE_FREED | NC_REQ_BUF_BYTE_SWAP); lastused = k; }
        else if (leads[k].flag & NC_REQ_XBUF_TO_BE_FREED) { leads[k].xbuf = malloc(8); leads[k].flag &= ~NC_REQ_BUF_BYTE_SWAP; }
        else leads[k].xbuf = ubuf[k];
        table[k].is_used = leads[k].abuf_index >= 0; table[k].req_size = 8; table[k].buf_addr = 0;
        for (int j = 0; j < 2; j++) if (j < NNv[k]) { reqs[off + j].lead_off = k; reqs[off + j].xbuf = leads[k].xbuf; reqs[off + j].start = NULL; reqs[off + j].nelems = 1; reqs[off + j].offset_start = 0; reqs[off + j].offset_end = 0; }
        off += NNv[k]; old_lead[k] = leads[k]; g_swap_cnt[k] = 0;
    }
    for (int t = 0; t < NT; t++) old_req[t] = reqs[t];
    abuf.table_size = NL; abuf.occupy_table = table; abuf.tail = lastused + 1; abuf.size_used = 8 * (lastused + 1); abuf.size_allocated = 8 * NL; abuf.buf = pool;
    nc.abuf = &abuf; nc.put_lead_list = leads; nc.put_list = reqs; nc.numLeadPutReqs = NL; nc.numPutReqs = NT; nc.get_lead_list = NULL; nc.get_list = NULL;
    nc.numLeadGetReqs = 0; nc.numGetReqs = 0; nc.my_aggr = -1; nc.nprocs = g_nprocs; nc.rank = g_rank; nc.numrecs = IN_numrecs; nc.format = 5; nc.comm = MPI_COMM_WORLD;
    g_wg_calls = 0;
    int r = WT(req_commit)(&nc, NL, NULL, NULL, IN_coll);
    CANARY(r == NC_NOERR && nc.numLeadPutReqs == NL - 1, "one_completed"); CANARY(r == NC_NOERR && nc.numLeadPutReqs == 0, "all_completed");
    CANARY(g_wg_calls == 1 && g_wg_ret[0] != NC_NOERR, "write_error"); CANARY(r == NC_NOERR && g_wg_calls == 0, "nothing_to_do");
}
