/* C02 / C13: posting a nonblocking put - ncmpio_igetput_varm (regenerated ncmpio_i_getput.c, #included
 * so that the allocation granule NC_REQUEST_CHUNK can be a verification-only small value; with the
 * library's 1024-entry granule every back end runs out of memory - DESIGN 1.2).
 * Instance: NLP pending lead put requests (one sub-request each), the new request is a high-level
 * iput on a 1-D variable with NEWN records (record variable) or one block (fixed variable).
 * Postcondition at the level of the queue view: every pending request is still there, unchanged,
 * with cross indices shifted consistently; the new request has a fresh even id larger than all
 * pending ones, NEWN sub-requests that point back to it, one per record. */
#include <config.h>
#include <stdlib.h>
#include <string.h>
#include <pnetcdf.h>
#include <dispatch.h>
#include <ncmpio_NC.h>
#include <common.h>
#include "ghost.h"
#undef NC_REQUEST_CHUNK
#define NC_REQUEST_CHUNK 4          /* verification-only granule (real value 1024) */
#ifndef NLP
#define NLP 2
#endif
#ifndef NEWN
#define NEWN 2
#endif
#ifndef NEWPOS
#define NEWPOS 0
#endif
#define CAP 4
NC_lead_req old_lead[CAP]; NC_req old_req[CAP]; int G; int g_pack_calls, g_pack_ret; const void *g_pack_buf, *g_pack_xbuf;
long long IN_begin_new, IN_begin[NLP ? NLP : 1], IN_start0; int IN_flags, IN_maxid; _Bool IN_isrec;

int ncmpio_pack_xbuf(int fmt, NC_var *varp, MPI_Offset bufcount, MPI_Datatype buftype, int buftype_is_contig, MPI_Offset nelems,
                     MPI_Datatype itype, int el_size, MPI_Datatype imaptype, int need_convert, int need_swap, size_t xbuf_size, void *buf, void *xbuf)
__CPROVER_requires(xbuf != NULL)
__CPROVER_assigns(__CPROVER_object_whole(xbuf), g_pack_calls, g_pack_ret, g_pack_buf, g_pack_xbuf)
__CPROVER_ensures(g_pack_calls == __CPROVER_old(g_pack_calls) + 1 && g_pack_buf == buf && g_pack_xbuf == xbuf)
/* NC error codes are not positive */
__CPROVER_ensures(__CPROVER_return_value <= 0 && g_pack_ret == __CPROVER_return_value)
;

/* splitting a multi-record request into one sub-request per record: under its own contract (job
 * ncmpio_add_record_requests), replaced here - sub-request fields only, the start/count vectors are its business */
int g_addrec_calls; long long IN_a_start0, IN_a_stride0; int GI;
#ifdef H_addrec
#define AR_ND 2
#ifndef WITH_STRIDE
#define WITH_STRIDE 0
#endif
/* stride NULL or not is a per-instance constant: it decides the length of the memcpy, and CBMC's memcpy model
 * is wrong for a symbolic length (the last element is not copied; reproduced outside this code base) */
#define AR_CHUNK (WITH_STRIDE ? 3 * AR_ND : 2 * AR_ND)
int ncmpio_add_record_requests(NC_lead_req *lead_list, NC_req *reqs, MPI_Offset num_recs, const MPI_Offset *stride)
__CPROVER_requires(num_recs == NEWN && GI >= 1 && GI < NEWN && reqs[0].lead_off == 0 && lead_list[0].varp->ndims == AR_ND && lead_list[0].varp->xsz == 4 && reqs[0].nelems == 3)
__CPROVER_requires(reqs[0].start[0] == IN_a_start0 && IN_a_start0 >= 0 && IN_a_start0 < ((long long)1 << 40) && IN_a_stride0 >= 0 && IN_a_stride0 < ((long long)1 << 20) && (IN_a_stride0 != 0) == (WITH_STRIDE != 0) &&
                   (IN_a_stride0 ? stride != NULL && stride[0] == IN_a_stride0 && reqs[0].start[2 * AR_ND] == IN_a_stride0 : stride == NULL))
__CPROVER_assigns(__CPROVER_object_upto(reqs, NEWN * sizeof(NC_req)), __CPROVER_object_whole(reqs[0].start))
__CPROVER_ensures(__CPROVER_return_value == NC_NOERR)
__CPROVER_ensures(reqs[GI].start == reqs[0].start + GI * AR_CHUNK && reqs[GI].start[0] == IN_a_start0 + GI * (IN_a_stride0 ? IN_a_stride0 : 1)) /*@subrequest_addresses_its_own_record*/
__CPROVER_ensures(reqs[GI].start[AR_ND] == 1 && reqs[0].start[AR_ND] == 1 && reqs[GI].start[1] == reqs[0].start[1] && reqs[GI].start[AR_ND + 1] == reqs[0].start[AR_ND + 1]) /*@one_record_each_other_dimensions_copied*/
__CPROVER_ensures(IMPLIES(IN_a_stride0 != 0, reqs[GI].start[2 * AR_ND] == IN_a_stride0 && reqs[GI].start[2 * AR_ND + 1] == reqs[0].start[2 * AR_ND + 1])) /*@stride_vector_copied*/
__CPROVER_ensures(reqs[GI].lead_off == reqs[0].lead_off && reqs[GI].nelems == reqs[0].nelems && reqs[GI].xbuf == (char *)reqs[0].xbuf + GI * 3 * 4) /*@subrequest_points_back_and_owns_its_slice_of_the_buffer*/
;
#else
int ncmpio_add_record_requests(NC_lead_req *lead_list, NC_req *reqs, MPI_Offset num_recs, const MPI_Offset *stride)
__CPROVER_requires(num_recs == NEWN && NEWN == 2 && stride == NULL && g_addrec_calls == 0)
__CPROVER_assigns(reqs[1].start, reqs[1].nelems, reqs[1].lead_off, reqs[1].xbuf, g_addrec_calls)
__CPROVER_ensures(__CPROVER_return_value == NC_NOERR && g_addrec_calls == 1 && reqs[1].lead_off == reqs[0].lead_off && reqs[1].nelems == reqs[0].nelems)
__CPROVER_ensures(__CPROVER_pointer_equals(reqs[1].xbuf, (char *)reqs[0].xbuf + reqs[0].nelems * 4))
;
#endif

static inline int spec_newpos(const NC *ncp)      /* position the new lead must take: after every pending lead whose variable begins at or below it */
{
    long long off = IN_begin_new + (IN_isrec ? ncp->recsize * IN_start0 : 0);
    int p = NLP;
    for (int i = NLP - 1; i >= 0; i--) { if (IN_begin[i] <= off) break; p = i; }
    return p;
}
#define NP spec_newpos(ncp)
#define OLDPOS_TO_NEW(g, np) ((g) < (np) ? (g) : (g) + 1)
#define NNEW (IN_isrec ? NEWN : 1)

#ifndef H_addrec
int ncmpio_igetput_varm(NC *ncp, NC_var *varp, const MPI_Offset start[], const MPI_Offset count[], const MPI_Offset stride[], const MPI_Offset imap[],
                        void *buf, MPI_Offset bufcount, MPI_Datatype buftype, int *reqid, int reqMode)
__CPROVER_requires(ncp->numLeadPutReqs == NLP && ncp->numPutReqs == NLP && G >= 0 && G < (NLP ? NLP : 1) && reqMode == (NC_REQ_WR | NC_REQ_NBI | NC_REQ_HL))
__CPROVER_requires(varp->ndims == 1 && stride == NULL && imap == NULL && bufcount == NC_COUNT_IGNORE && buftype == MPI_INT && varp->xtype == NC_INT && varp->xsz == 4)
__CPROVER_requires(count[0] == NNEW && start[0] == IN_start0 && IN_start0 >= 0 && IN_start0 < 1000 && ncp->recsize >= 0 && ncp->recsize < ((long long)1 << 30) && varp->begin == IN_begin_new)
__CPROVER_requires(g_pack_calls == 0 && ncp->maxPutReqID == IN_maxid)
__CPROVER_assigns(ncp->put_lead_list != NULL: __CPROVER_object_whole(ncp->put_lead_list))
__CPROVER_assigns(ncp->put_list != NULL: __CPROVER_object_whole(ncp->put_list))
/* the queues grow by reallocation when a granule is full */
__CPROVER_frees(ncp->put_lead_list, ncp->put_list)
__CPROVER_assigns(*reqid, __CPROVER_object_whole(ncp), g_pack_calls, g_pack_ret, g_pack_buf, g_pack_xbuf, g_addrec_calls,
                  __CPROVER_object_whole(buf), GH_TYPES)
#define ACC (g_pack_ret == NC_NOERR || g_pack_ret == NC_ERANGE)
__CPROVER_ensures(IMPLIES(ACC, __CPROVER_return_value == NC_NOERR || __CPROVER_return_value == NC_ERANGE)) /*@valid_post_accepted*/
__CPROVER_ensures(IMPLIES(!ACC, __CPROVER_return_value == g_pack_ret && ncp->numLeadPutReqs == NLP && ncp->numPutReqs == NLP && ncp->maxPutReqID == IN_maxid)) /*@failed_packing_queues_nothing*/
__CPROVER_ensures(IMPLIES(ACC, ncp->numLeadPutReqs == NLP + 1 && ncp->numPutReqs == NLP + NNEW)) /*@one_lead_and_one_subrequest_per_record_added*/
__CPROVER_ensures(IMPLIES(ACC, *reqid == (NLP == 0 ? 0 : IN_maxid + 2) && (*reqid & 1) == 0 && ncp->maxPutReqID == *reqid && ncp->put_lead_list[NP].id == *reqid)) /*@fresh_even_id_larger_than_all_pending*/
__CPROVER_ensures(IMPLIES(ACC, ncp->put_lead_list[NP].nonlead_num == NNEW && ncp->put_lead_list[NP].nonlead_off == NP && ncp->put_lead_list[NP].varp == varp && ncp->put_lead_list[NP].buf == buf)) /*@new_request_recorded*/
__CPROVER_ensures(IMPLIES(ACC, ncp->put_list[NP].lead_off == NP && ncp->put_list[NP + NNEW - 1].lead_off == NP)) /*@new_subrequests_point_back*/
__CPROVER_ensures(IMPLIES(ACC, IMPLIES(IN_isrec && NEWN > 1, g_addrec_calls == 1 && ncp->put_list[NP].nelems == 1 && ncp->put_list[NP + 1].xbuf == (char *)ncp->put_list[NP].xbuf + 4))) /*@one_subrequest_per_record_with_its_own_slice*/
__CPROVER_ensures(IMPLIES(ACC, IMPLIES(NLP > 0, ncp->put_lead_list[OLDPOS_TO_NEW(G, NP)].id == old_lead[G].id && ncp->put_lead_list[OLDPOS_TO_NEW(G, NP)].buf == old_lead[G].buf &&
      ncp->put_lead_list[OLDPOS_TO_NEW(G, NP)].flag == old_lead[G].flag && ncp->put_lead_list[OLDPOS_TO_NEW(G, NP)].nonlead_num == old_lead[G].nonlead_num))) /*@pending_request_unchanged*/
__CPROVER_ensures(IMPLIES(ACC, IMPLIES(NLP > 0, ncp->put_lead_list[OLDPOS_TO_NEW(G, NP)].nonlead_off == old_lead[G].nonlead_off + (G < NP ? 0 : NNEW)))) /*@pending_request_offset_shifted_by_number_inserted*/
__CPROVER_ensures(IMPLIES(ACC, IMPLIES(NLP > 0, ncp->put_list[old_lead[G].nonlead_off + (G < NP ? 0 : NNEW)].lead_off == OLDPOS_TO_NEW(G, NP) &&
      ncp->put_list[old_lead[G].nonlead_off + (G < NP ? 0 : NNEW)].xbuf == old_req[old_lead[G].nonlead_off].xbuf))) /*@pending_subrequest_kept_and_points_back*/
/* C13: data is captured (packed) at posting time, from the caller's buffer */
__CPROVER_ensures(IMPLIES(ACC, g_pack_calls == 1 && g_pack_buf == buf && g_pack_xbuf == ncp->put_lead_list[NP].xbuf)) /*@C13_data_captured_at_post_time*/
__CPROVER_ensures(IMPLIES(ACC, IMPLIES(ncp->put_lead_list[NP].xbuf == buf, (ncp->put_lead_list[NP].flag & NC_REQ_BUF_BYTE_SWAP) != 0 && !(ncp->flags & NC_MODE_SWAP_OFF)))) /*@C13_in_place_use_of_caller_buffer_is_flagged_for_swap_back*/
;
#endif

#include TU_i_getput_c

#ifdef H_addrec
static NC_lead_req lead[1]; static NC_req rq[NEWN]; static NC_var avar; static MPI_Offset vec[3 * AR_ND * NEWN], strd[AR_ND]; static char xb[NEWN * 12];
void harness(void)
{
    GI = nondet_int(); IN_a_start0 = nondet_ll(); IN_a_stride0 = nondet_ll();
    __CPROVER_assume(GI >= 1 && GI < NEWN && IN_a_start0 >= 0 && IN_a_start0 < ((long long)1 << 40) && IN_a_stride0 >= 0 && IN_a_stride0 < ((long long)1 << 20) && (IN_a_stride0 != 0) == (WITH_STRIDE != 0));
    avar.ndims = AR_ND; avar.xsz = 4; lead[0].varp = &avar;
    for (int k = 0; k < 3 * AR_ND; k++) vec[k] = nondet_ll();
    vec[0] = IN_a_start0; vec[AR_ND] = NEWN; vec[2 * AR_ND] = IN_a_stride0; strd[0] = IN_a_stride0; strd[1] = vec[2 * AR_ND + 1];
    rq[0].start = vec; rq[0].lead_off = 0; rq[0].nelems = 3; rq[0].xbuf = xb;
    int r = ncmpio_add_record_requests(lead, rq, NEWN, WITH_STRIDE ? strd : NULL);
    CANARY(r == NC_NOERR && IN_a_stride0 == 0, "contiguous_records"); CANARY(r == NC_NOERR && IN_a_stride0 > 1, "strided_records"); CANARY(r == NC_NOERR && IN_a_stride0 == 1, "unit_stride");
}
#else
static NC nc; static NC_var var, ovar[NLP ? NLP : 1]; static MPI_Offset shp[1], st[1], ct[1]; static char ubuf[16], obuf[NLP ? NLP : 1][8];
void harness(void)
{
    ghost_setup(0);
    G = nondet_int(); __CPROVER_assume(G >= 0 && G < (NLP ? NLP : 1));
    IN_begin_new = 1000 * NEWPOS + 500; IN_start0 = 0; IN_flags = nondet_int(); IN_isrec = nondet_bool(); IN_maxid = nondet_int();
    __CPROVER_assume(IN_maxid >= 0 && IN_maxid < 100000 && (IN_maxid & 1) == 0);
    NC_lead_req *leads = NLP ? malloc(CAP * sizeof(NC_lead_req)) : NULL; NC_req *reqs = NLP ? malloc(CAP * sizeof(NC_req)) : NULL;
    for (int k = 0; k < NLP; k++) {
        IN_begin[k] = 1000 * (k + 1);   /* enumerated layout: the insertion position NEWPOS is a compile-time constant */
        ovar[k].begin = IN_begin[k]; ovar[k].ndims = 1; ovar[k].xsz = 4;
        leads[k].id = IN_maxid - 2 * (NLP - 1 - k); leads[k].flag = nondet_int(); leads[k].nonlead_off = k; leads[k].nonlead_num = 1; leads[k].buf = obuf[k]; leads[k].xbuf = obuf[k];
        leads[k].varp = &ovar[k]; leads[k].abuf_index = -1; leads[k].start = NULL; leads[k].nelems = 1;
        reqs[k].lead_off = k; reqs[k].xbuf = obuf[k]; reqs[k].start = NULL; reqs[k].nelems = 1;
        old_lead[k] = leads[k]; old_req[k] = reqs[k];
    }
    __CPROVER_assume(IN_maxid >= 2 * (NLP ? NLP - 1 : 0));
    nc.put_lead_list = leads; nc.put_list = reqs; nc.numLeadPutReqs = NLP; nc.numPutReqs = NLP; nc.maxPutReqID = IN_maxid; nc.flags = IN_flags; nc.format = 1;
    nc.recsize = 64; nc.abuf = NULL; nc.get_lead_list = NULL; nc.get_list = NULL; nc.numLeadGetReqs = 0; nc.numGetReqs = 0;
    var.ndims = 1; var.xtype = NC_INT; var.xsz = 4; var.begin = IN_begin_new; shp[0] = IN_isrec ? NC_UNLIMITED : 100; var.shape = shp;
    st[0] = IN_start0; ct[0] = IN_isrec ? NEWN : 1;
    g_pack_calls = 0; g_pack_ret = 0; g_addrec_calls = 0;
    int id = -7;
    int r = ncmpio_igetput_varm(&nc, &var, st, ct, NULL, NULL, ubuf, NC_COUNT_IGNORE, MPI_INT, &id, NC_REQ_WR | NC_REQ_NBI | NC_REQ_HL);
    CANARY(r == NC_NOERR && nc.put_lead_list[0].id == id && NLP > 0, "inserted_first"); CANARY(r == NC_NOERR && nc.put_lead_list[NLP].id == id, "appended_last");
    CANARY(r == NC_NOERR && IN_isrec, "record_request"); CANARY(r == NC_NOERR && nc.put_lead_list[spec_newpos(&nc)].xbuf == (void *)ubuf, "in_place");
}
#endif
