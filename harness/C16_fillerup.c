/* C16 / C11 / C08: fillerup_aggregate (static, ncmpio_fill.c) - at enddef all new fill-mode variables
 * are filled by one aggregated collective write whose file view lists one segment per fixed-size
 * variable and one per (record variable, existing record).
 * Instance: NPROCS processes, rank RANK, NRECS existing records, NOLDV existing + 2 new variables of
 * symbolic kind, fill mode and length (enumerated constants decide every division and loop bound). */
#include <config.h>
#include <stdlib.h>
#include <pnetcdf.h>
#include <dispatch.h>
#include <ncmpio_NC.h>
#include "ghost.h"
#ifndef NPROCS
#define NPROCS 2
#endif
#ifndef RANK
#define RANK 1
#endif
#ifndef NRECS
#define NRECS 2
#endif
#ifndef NOLDV
#define NOLDV 1
#endif
#define NNEW 2
#define NV (NOLDV + NNEW)
#define XSZ 4
#define FV(sym) FL(ncmpio_fill, sym)
extern int g_hidx_calls, g_hidx_count; extern long long g_hidx_bl[8], g_hidx_disp[8];
int g_fvb_calls; long long g_fvb_bytes; int g_fvb_fail_at, g_fvb_failed;
_Bool IN_isrec[NNEW], IN_nofill[NNEW]; long long IN_len[NNEW], IN_begin[NNEW], IN_recsize; int GV, GR;

int FV(fill_var_buf)(const NC_var *varp, MPI_Offset bnelems, void *buf)
__CPROVER_requires(bnelems >= 0 && bnelems <= 100000)
__CPROVER_assigns(g_fvb_calls, g_fvb_bytes, g_fvb_failed)
__CPROVER_ensures(g_fvb_calls == __CPROVER_old(g_fvb_calls) + 1 && __CPROVER_return_value <= 0)
__CPROVER_ensures(IMPLIES(__CPROVER_return_value == NC_NOERR, g_fvb_bytes == __CPROVER_old(g_fvb_bytes) + bnelems * varp->xsz && g_fvb_failed == __CPROVER_old(g_fvb_failed)))
__CPROVER_ensures(IMPLIES(__CPROVER_return_value != NC_NOERR, g_fvb_bytes == __CPROVER_old(g_fvb_bytes) && g_fvb_failed == __CPROVER_old(g_fvb_failed) + 1))
;
#define SPEC_Q(n) ((n) / NPROCS)
#define SPEC_R(n) ((n) % NPROCS)
#define SPEC_COUNT(n, r) (SPEC_Q(n) + ((r) < SPEC_R(n) ? 1 : 0))
#define SPEC_START(n, r) ((r) * SPEC_Q(n) + ((r) < SPEC_R(n) ? (r) : SPEC_R(n)))
#define FILLED(i) (!IN_nofill[i])
#define NFIX ((FILLED(0) && !IN_isrec[0] ? 1 : 0) + (FILLED(1) && !IN_isrec[1] ? 1 : 0))
#define NREC ((FILLED(0) && IN_isrec[0] ? 1 : 0) + (FILLED(1) && IN_isrec[1] ? 1 : 0))
/* position of the segment of new variable v (record r for a record variable) in the view */
#define SEG_FIX(v) ((v) == 1 && FILLED(0) && !IN_isrec[0] ? 1 : 0)
#define SEG_REC(v, r) (NFIX + (r) * NREC + ((v) == 1 && FILLED(0) && IN_isrec[0] ? 1 : 0))
#define SEG(v, r) (IN_isrec[v] ? SEG_REC(v, r) : SEG_FIX(v))
#define CLEAN (g_fvb_failed == 0)

int FV(fillerup_aggregate)(NC *ncp, NC *old_ncp)
__CPROVER_requires(ncp->vars.ndefined == NV && ncp->nprocs == NPROCS && ncp->rank == RANK && old_ncp->vars.ndefined == NOLDV && old_ncp->numrecs == NRECS && ncp->recsize == IN_recsize)
__CPROVER_requires(g_coll_n == 0 && g_io_n == 0 && g_nwrites == 0 && g_io_failed == 0 && g_type_live == 0 && g_hidx_calls == 0 && g_fvb_calls == 0 && g_fvb_bytes == 0 && g_fvb_failed == 0 && 0 <= GV && GV < NNEW && 0 <= GR && GR < (NRECS ? NRECS : 1))
__CPROVER_assigns(g_fvb_calls, g_fvb_bytes, g_fvb_failed, g_hidx_calls, g_hidx_count, __CPROVER_object_whole(g_hidx_bl), __CPROVER_object_whole(g_hidx_disp), ncp->put_size, GHOST_ASSIGNS)
__CPROVER_ensures(IMPLIES(NFIX + NRECS * NREC == 0, g_io_n == 0 && g_coll_n == 0 && __CPROVER_return_value == NC_NOERR)) /*@nothing_to_fill_no_io*/
__CPROVER_ensures(IMPLIES(NFIX + NRECS * NREC > 0 && CLEAN, g_hidx_calls == 1 && g_hidx_count == NFIX + NRECS * NREC)) /*@one_segment_per_fill_mode_variable_and_existing_record_none_for_nofill*/
__CPROVER_ensures(IMPLIES(CLEAN && FILLED(GV) && (NRECS > 0 || !IN_isrec[GV]),
      g_hidx_disp[SEG(GV, GR)] == IN_begin[GV] + (IN_isrec[GV] ? IN_recsize * GR : 0) + SPEC_START(IN_len[GV], RANK) * XSZ)) /*@C16_segment_starts_at_this_ranks_share_of_the_variable_or_record*/
__CPROVER_ensures(IMPLIES(CLEAN && FILLED(GV) && (NRECS > 0 || !IN_isrec[GV]), g_hidx_bl[SEG(GV, GR)] == SPEC_COUNT(IN_len[GV], RANK) * XSZ)) /*@C16_segment_covers_exactly_this_ranks_share*/
__CPROVER_ensures(IMPLIES(NFIX + NRECS * NREC > 0 && CLEAN, g_io_n == 1 && g_io_off[0] == 0 && g_io_count[0] == g_fvb_bytes && g_io_kind[0] == (NPROCS > 1 ? IO_WRITE_AT_ALL : IO_WRITE_AT))) /*@one_aggregated_write_of_all_fill_bytes*/
__CPROVER_ensures(IMPLIES(g_io_failed, __CPROVER_return_value != NC_NOERR)) /*@C11_fill_write_failure_reported*/
__CPROVER_ensures(IMPLIES(g_fvb_failed > 0, __CPROVER_return_value != NC_NOERR)) /*@C11_unbuildable_fill_value_reported*/
__CPROVER_ensures(IMPLIES(NFIX + NRECS * NREC > 0, g_coll_kind[0] == COLL_FILE_SET_VIEW && (NPROCS > 1 ? g_coll_n == 3 && g_coll_kind[1] == COLL_FILE_WRITE_AT_ALL && g_coll_kind[2] == COLL_FILE_SET_VIEW : g_coll_n == 2 && g_coll_kind[1] == COLL_FILE_SET_VIEW))) /*@C08_view_write_view_whatever_happens_locally*/
__CPROVER_ensures(g_type_live == 0) /*@C17_no_datatype_left*/
;

static NC nc, old; static NC_var var[NV]; static NC_var *vp[NV]; static MPI_Offset shp[NV][2], ds[NV][2];
void harness(void)
{
    ghost_setup(nondet_int());
    GV = nondet_int(); GR = nondet_int(); __CPROVER_assume(0 <= GV && GV < NNEW && 0 <= GR && GR < (NRECS ? NRECS : 1));
    IN_recsize = nondet_ll(); __CPROVER_assume(IN_recsize >= 0 && IN_recsize < ((long long)1 << 40));
    for (int i = 0; i < NV; i++) {
        int k = i - NOLDV; _Bool isrec = nondet_bool(), nofill = nondet_bool(); long long len = nondet_ll(), beg = nondet_ll();
        __CPROVER_assume(len >= 0 && len < 100000 && beg >= 0 && beg < ((long long)1 << 40));
        if (k >= 0) { IN_isrec[k] = isrec; IN_nofill[k] = nofill; IN_len[k] = len; IN_begin[k] = beg; }
        var[i].ndims = 2; var[i].xsz = XSZ; var[i].xtype = NC_INT; var[i].no_fill = nofill; var[i].begin = beg;
        shp[i][0] = isrec ? NC_UNLIMITED : 7; shp[i][1] = 3; ds[i][0] = isrec ? 0 : len; ds[i][1] = isrec ? len : 3;
        var[i].shape = shp[i]; var[i].dsizes = ds[i]; vp[i] = &var[i];
    }
    nc.vars.ndefined = NV; nc.vars.value = vp; nc.vars.num_rec_vars = NV; nc.nprocs = NPROCS; nc.rank = RANK; nc.recsize = IN_recsize; nc.old = &old; nc.collective_fh = (MPI_File)1;
    old.vars.ndefined = NOLDV; old.numrecs = NRECS; g_nprocs = NPROCS; g_rank = RANK;
    g_fvb_calls = 0; g_fvb_bytes = 0; g_fvb_failed = 0; g_hidx_calls = 0; g_hidx_count = 0;
    int r = FV(fillerup_aggregate)(&nc, &old);
    CANARY(r == NC_NOERR && g_hidx_count == NNEW && NRECS <= 1, "two_segments"); CANARY(r == NC_NOERR && g_hidx_count == 2 * NRECS && NRECS > 1, "segment_per_record");
    CANARY(r == NC_NOERR && g_io_n == 0, "nothing_to_fill"); CANARY(g_io_failed && r != NC_NOERR, "write_failure_reported"); CANARY(g_fvb_failed > 0, "bad_fill_value");
}
