/* C03 / C18: encoding of one variable entry in the header (hdr_put_NC_var, static in
 * ncmpio_header_put.c) and its length as the library computes it (hdr_len_NC_var, static in
 * ncmpio_header_get.c), against the CDF format specification:
 *   var = name nelems [dimid ...] vatt_list nc_type vsize begin
 *   nelems, dimid: NON_NEG (4 bytes in CDF-1/2, 8 in CDF-5); nc_type: 4 bytes; vsize: NON_NEG,
 *   2^32-1 when the true size exceeds 2^32-4 in CDF-1/2; begin: 4 bytes in CDF-1, 8 otherwise. */
#include <config.h>
#include <stdlib.h>
#include <pnetcdf.h>
#include <dispatch.h>
#include <ncmpio_NC.h>
#include "vh.h"
#include "conv_spec.h"
#ifndef NDIMS
#define NDIMS 2
#endif
#ifndef FMTVER
#define FMTVER 1
#endif
#if FMTVER == 5
#define W 8
#else
#define W 4
#endif
#if FMTVER == 1
#define OFFW 4
#else
#define OFFW 8
#endif
#define NAME_ADV (W + 4)         /* instance: a name of 1..4 characters */
#define ATTR_ADV (4 + W)         /* instance: ABSENT attribute list (tag ZERO, nelems 0) */
#define P0 8                     /* position of the entry in the buffer */
long long IN_len, IN_begin; int IN_xtype, IN_dimid[2];
static char hbuf[96];

/* callees by contract: each advances the write position by the length of what it encodes */
int FL(ncmpio_header_put, hdr_put_NC_name)(bufferinfo *pbp, const char *name)
__CPROVER_assigns(pbp->pos, __CPROVER_object_upto(pbp->pos, NAME_ADV))   /* writes exactly the bytes it encodes */
__CPROVER_ensures(__CPROVER_return_value == NC_NOERR ==> __CPROVER_pointer_equals(pbp->pos, __CPROVER_old(pbp->pos) + NAME_ADV))
;
int FL(ncmpio_header_put, hdr_put_NC_attrarray)(bufferinfo *pbp, const NC_attrarray *ncap)
__CPROVER_assigns(pbp->pos, __CPROVER_object_upto(pbp->pos, ATTR_ADV))
__CPROVER_ensures(__CPROVER_return_value == NC_NOERR ==> __CPROVER_pointer_equals(pbp->pos, __CPROVER_old(pbp->pos) + ATTR_ADV))
;

#define AT(off) ((const unsigned char *)hbuf + P0 + (off))
#define O_NELEMS NAME_ADV
#define O_DIMID(i) (NAME_ADV + W + W * (i))
#define O_TYPE (NAME_ADV + W + W * NDIMS + ATTR_ADV)
#define O_VSIZE (O_TYPE + 4)
#define O_BEGIN (O_VSIZE + W)
#define ENTRY_LEN (O_BEGIN + OFFW)
#define SPEC_VSIZE(len) ((FMTVER < 5 && (len) > 4294967292LL) ? 4294967295ULL : (unsigned long long)(len))

int FL(ncmpio_header_put, hdr_put_NC_var)(bufferinfo *pbp, const NC_var *varp)
__CPROVER_requires(pbp->version == FMTVER && pbp->pos == hbuf + P0 && varp->ndims == NDIMS && varp->len >= 0 && varp->begin >= 0)
__CPROVER_requires(IMPLIES(FMTVER < 5, varp->len < ((long long)1 << 62)))
__CPROVER_requires(NDIMS < 1 || (varp->dimids[0] >= 0 && varp->dimids[0] == IN_dimid[0]))
__CPROVER_requires(NDIMS < 2 || (varp->dimids[1] >= 0 && varp->dimids[1] == IN_dimid[1]))
__CPROVER_requires(varp->len == IN_len && varp->begin == IN_begin && varp->xtype == IN_xtype)
__CPROVER_assigns(pbp->pos, __CPROVER_object_whole(hbuf))
__CPROVER_ensures(IMPLIES(FMTVER == 1 && varp->begin > 2147483647LL, __CPROVER_return_value != NC_NOERR)) /*@C18_cdf1_offset_beyond_2GiB_rejected*/
__CPROVER_ensures(IMPLIES(__CPROVER_return_value == NC_NOERR, pbp->pos == hbuf + P0 + ENTRY_LEN)) /*@entry_length_by_format*/
__CPROVER_ensures(IMPLIES(__CPROVER_return_value == NC_NOERR, spec_be(AT(O_NELEMS), W) == NDIMS)) /*@ndims_field*/
__CPROVER_ensures(IMPLIES(__CPROVER_return_value == NC_NOERR && NDIMS >= 1, spec_be(AT(O_DIMID(0)), W) == (unsigned long long)IN_dimid[0])) /*@dimid0_field*/
__CPROVER_ensures(IMPLIES(__CPROVER_return_value == NC_NOERR && NDIMS >= 2, spec_be(AT(O_DIMID(NDIMS >= 2 ? 1 : 0)), W) == (unsigned long long)IN_dimid[1])) /*@dimid1_field*/
__CPROVER_ensures(IMPLIES(__CPROVER_return_value == NC_NOERR, spec_be(AT(O_TYPE), 4) == (unsigned)IN_xtype)) /*@type_field*/
__CPROVER_ensures(IMPLIES(__CPROVER_return_value == NC_NOERR, spec_be(AT(O_VSIZE), W) == SPEC_VSIZE(IN_len))) /*@vsize_field_saturates_at_2e32_minus_1*/
__CPROVER_ensures(IMPLIES(__CPROVER_return_value == NC_NOERR, spec_be(AT(O_BEGIN), OFFW) == (unsigned long long)IN_begin)) /*@begin_field*/
;

/* ---- the length the library computes for the same entry ---- */
long long g_attr_len;
MPI_Offset FL(ncmpio_header_get, hdr_len_NC_attrarray)(const NC_attrarray *ncap, int sizeof_NON_NEG)
__CPROVER_assigns()
__CPROVER_ensures(__CPROVER_return_value == g_attr_len)
;
MPI_Offset FL(ncmpio_header_get, hdr_len_NC_var)(const NC_var *varp, int sizeof_off_t, int sizeof_NON_NEG)
__CPROVER_requires(__CPROVER_is_fresh(varp, sizeof(NC_var)) && varp->ndims >= 0 && varp->ndims <= 1024 && varp->name_len <= 256 &&
                   (sizeof_NON_NEG == 4 || sizeof_NON_NEG == 8) && (sizeof_off_t == 4 || sizeof_off_t == 8) && g_attr_len >= 0 && g_attr_len < ((long long)1 << 40))
__CPROVER_assigns()
__CPROVER_ensures(__CPROVER_return_value == sizeof_NON_NEG + (long long)((varp->name_len + 3) / 4 * 4) + sizeof_NON_NEG + (long long)sizeof_NON_NEG * varp->ndims +
                  g_attr_len + 4 + sizeof_NON_NEG + sizeof_off_t) /*@length_matches_format_grammar*/
;

#ifdef H_put
static bufferinfo pb; static NC_var var; static int dimids[2]; static char nm[] = "abc";
void harness(void)
{
    IN_len = nondet_ll(); IN_begin = nondet_ll(); IN_xtype = nondet_int(); IN_dimid[0] = nondet_int(); IN_dimid[1] = nondet_int();
    __CPROVER_assume(IN_xtype >= 1 && IN_xtype <= 11);
    pb.version = FMTVER; pb.base = hbuf; pb.pos = hbuf + P0; pb.end = hbuf + sizeof(hbuf);
    var.ndims = NDIMS; var.dimids = dimids; dimids[0] = IN_dimid[0]; dimids[1] = IN_dimid[1];
    var.name = nm; var.name_len = 3; var.len = IN_len; var.begin = IN_begin; var.xtype = IN_xtype; var.attrs.ndefined = 0; var.attrs.value = NULL;
    int r = FL(ncmpio_header_put, hdr_put_NC_var)(&pb, &var);
    CANARY(r == NC_NOERR, "noerr");
    CANARY(r == NC_NOERR && IN_len > 4294967292LL, "oversize_encoded");
#if FMTVER == 1
    CANARY(r == NC_EINTOVERFLOW, "eintoverflow");
#endif
}
#endif
#ifdef H_len
void harness(void)
{
    g_attr_len = nondet_ll();
    const NC_var *v; long long r = FL(ncmpio_header_get, hdr_len_NC_var)(v, nondet_int(), nondet_int());
    CANARY(r > 0, "positive");
}
#endif
