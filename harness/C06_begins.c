/* C06 (and C03): layout recomputed at enddef after a redefinition - NC_begins with ncp->old != NULL.
 * Instance: NOLD existing variables (symbolic kind and length, old layout well formed as NC_begins /
 * the header reader leave it), NVARS - NOLD added ones; alignments enumerated constants.
 * The clauses are exactly what move_fixed_vars / move_record_vars rely on (their own contracts are
 * enforced in C06_moves.c): nothing moves toward the file start, an existing fixed variable moves
 * only if the header extent grew, the position of a record variable inside a record is kept. */
#include <config.h>
#include <stdlib.h>
#include <pnetcdf.h>
#include <dispatch.h>
#include <ncmpio_NC.h>
#include "ghost.h"
#ifndef NVARS
#define NVARS 3
#endif
#ifndef NOLD
#define NOLD 2
#endif
#ifndef H_ALIGN
#define H_ALIGN 512
#endif
#ifndef R_ALIGN
#define R_ALIGN 4
#endif
#if NVARS > 1
#define I1 1
#else
#define I1 0
#endif
#if NVARS > 2
#define I2 2
#else
#define I2 0
#endif
#if NVARS > 3
#define I3 3
#else
#define I3 0
#endif
#define ED(sym) FL(ncmpio_enddef, sym)
int GA, GB; long long g_xsz; long long IN_len[NVARS], IN_hminfree, IN_vminfree, OLD_begin[NOLD], OLD_begin_var, OLD_begin_rec, IN_numrecs; _Bool IN_isrec[NVARS]; int IN_format;

MPI_Offset ncmpio_hdr_len_NC(const NC *ncp)
__CPROVER_assigns()
__CPROVER_ensures(__CPROVER_return_value == g_xsz)
;
#define V(i) (ncp->vars.value[i])
#define ISREC(i) IN_isrec[i]
#define OK (__CPROVER_return_value == NC_NOERR)
static inline int spec_nrec(void) { int n = 0; for (int i = 0; i < NVARS; i++) n += IN_isrec[i]; return n; }
static inline long long spec_sumrec(void) { long long s = 0; for (int i = 0; i < NVARS; i++) if (IN_isrec[i]) s += IN_len[i]; return s; }

int ED(NC_begins)(NC *ncp)
__CPROVER_requires(ncp->vars.ndefined == NVARS && ncp->old != NULL && ncp->old->vars.ndefined == NOLD && ncp->safe_mode == 0 && !(ncp->flags & NC_MODE_CREATE) && 0 <= GA && GA < GB && GB < NVARS)
__CPROVER_requires(ncp->h_align == H_ALIGN && ncp->r_align == R_ALIGN && ncp->h_minfree == IN_hminfree && ncp->v_minfree == IN_vminfree && IN_hminfree >= 0 && IN_hminfree < (1 << 20) &&
                   IN_vminfree >= 0 && IN_vminfree < (1 << 20) && g_xsz >= 32 && g_xsz < ((long long)1 << 30) && ncp->begin_rec == OLD_begin_rec && ncp->format == IN_format && ncp->numrecs == IN_numrecs)
__CPROVER_assigns(ncp->xsz, ncp->begin_var, ncp->begin_rec, ncp->recsize, ncp->numrecs, V(0)->begin, V(I1)->begin, V(I2)->begin, V(I3)->begin, GH_COLL)
__CPROVER_ensures(IMPLIES(IN_format != 1, OK)) /*@layout_always_exists_for_64bit_offset_formats*/
__CPROVER_ensures(IMPLIES(OK, V(GA)->begin % 4 == 0 && V(GB)->begin % 4 == 0 && ncp->begin_var % 4 == 0 && ncp->begin_rec % 4 == 0)) /*@every_begin_4_byte_aligned*/
__CPROVER_ensures(IMPLIES(OK, ncp->xsz == g_xsz && ncp->begin_var >= g_xsz + IN_hminfree && V(GA)->begin >= ncp->begin_var && V(GB)->begin >= ncp->begin_var)) /*@data_after_header_and_requested_free_space*/
__CPROVER_ensures(IMPLIES(OK && ISREC(GA) == ISREC(GB), V(GA)->begin + IN_len[GA] <= V(GB)->begin)) /*@same_kind_variables_in_definition_order_without_overlap*/
__CPROVER_ensures(IMPLIES(OK && !ISREC(GA) && ISREC(GB), V(GA)->begin + IN_len[GA] + IN_vminfree <= ncp->begin_rec && ncp->begin_rec <= V(GB)->begin)) /*@record_section_after_fixed_section_and_free_space*/
__CPROVER_ensures(IMPLIES(OK && ISREC(GA) && !ISREC(GB), V(GB)->begin + IN_len[GB] + IN_vminfree <= ncp->begin_rec && ncp->begin_rec <= V(GA)->begin)) /*@record_section_after_fixed_section_even_if_defined_first*/
__CPROVER_ensures(IMPLIES(OK, ncp->begin_var >= OLD_begin_var && ncp->begin_rec >= OLD_begin_rec)) /*@C06_sections_never_move_toward_file_start*/
__CPROVER_ensures(IMPLIES(OK && GA < NOLD, V(GA)->begin >= OLD_begin[GA]) && IMPLIES(OK && GB < NOLD, V(GB)->begin >= OLD_begin[GB])) /*@C06_existing_variable_never_moves_toward_file_start*/
__CPROVER_ensures(IMPLIES(OK && ncp->begin_var == OLD_begin_var && GA < NOLD && !ISREC(GA), V(GA)->begin == OLD_begin[GA]) &&
                  IMPLIES(OK && ncp->begin_var == OLD_begin_var && GB < NOLD && !ISREC(GB), V(GB)->begin == OLD_begin[GB])) /*@C06_fixed_variable_moves_only_if_header_extent_grew*/
__CPROVER_ensures(IMPLIES(OK && GA < NOLD && ISREC(GA), V(GA)->begin - ncp->begin_rec == OLD_begin[GA] - OLD_begin_rec) &&
                  IMPLIES(OK && GB < NOLD && ISREC(GB), V(GB)->begin - ncp->begin_rec == OLD_begin[GB] - OLD_begin_rec)) /*@C06_position_of_record_variable_inside_a_record_kept*/
__CPROVER_ensures(IMPLIES(OK && spec_nrec() != 1, ncp->recsize == spec_sumrec())) /*@record_size_is_sum_of_record_variable_sizes*/
__CPROVER_ensures(IMPLIES(OK, ncp->numrecs == IN_numrecs)) /*@C06_record_count_kept*/
__CPROVER_ensures(OK || __CPROVER_return_value == NC_EVARSIZE) /*@retcode*/
;

static NC nc, old; static NC_var var[NVARS], ovar[NOLD]; static NC_var *vp[NVARS], *ovp[NOLD]; static MPI_Offset shp[NVARS][1], ds[NVARS][1];
void harness(void)
{
    ghost_setup(0);
    GA = nondet_int(); GB = nondet_int(); __CPROVER_assume(0 <= GA && GA < GB && GB < NVARS);
    g_xsz = nondet_ll(); IN_hminfree = nondet_ll(); IN_vminfree = nondet_ll(); IN_format = nondet_int(); IN_numrecs = nondet_ll();
    __CPROVER_assume(IN_format == 1 || IN_format == 2 || IN_format == 5);
    OLD_begin_var = nondet_ll(); OLD_begin_rec = nondet_ll(); __CPROVER_assume(OLD_begin_var >= 32 && OLD_begin_var % 4 == 0 && OLD_begin_rec >= OLD_begin_var && OLD_begin_rec % 4 == 0 && OLD_begin_rec < ((long long)1 << 40));
    long long fe = OLD_begin_var, re = OLD_begin_rec; _Bool seen_fixed = 0;
    for (int i = 0; i < NVARS; i++) {
        IN_isrec[i] = nondet_bool(); IN_len[i] = nondet_ll(); __CPROVER_assume(IN_len[i] >= 4 && IN_len[i] < ((long long)1 << 32) && IN_len[i] % 4 == 0);
        shp[i][0] = IN_isrec[i] ? NC_UNLIMITED : 3; ds[i][0] = nondet_ll(); __CPROVER_assume(ds[i][0] >= 0 && ds[i][0] < 1000);
        var[i].ndims = 1; var[i].shape = shp[i]; var[i].dsizes = ds[i]; var[i].len = IN_len[i]; var[i].xsz = 2; var[i].begin = nondet_ll(); vp[i] = &var[i];
        if (i < NOLD) {   /* well-formed old layout: fixed variables ordered without overlap (gaps allowed), the first at the header extent; record variables packed from begin_rec */
            ovar[i] = var[i]; ovp[i] = &ovar[i];
            if (IN_isrec[i]) { OLD_begin[i] = re; re += IN_len[i]; }
            else { OLD_begin[i] = nondet_ll(); __CPROVER_assume(OLD_begin[i] % 4 == 0 && (seen_fixed ? OLD_begin[i] >= fe : OLD_begin[i] == fe) && OLD_begin[i] < ((long long)1 << 40)); fe = OLD_begin[i] + IN_len[i]; seen_fixed = 1; }
            ovar[i].begin = OLD_begin[i]; var[i].begin = OLD_begin[i];
        }
    }
    __CPROVER_assume(seen_fixed ? OLD_begin_rec >= fe : OLD_begin_rec == OLD_begin_var);
    old.vars.ndefined = NOLD; old.vars.value = ovp; old.begin_var = OLD_begin_var; old.begin_rec = OLD_begin_rec; old.old = NULL;
    nc.vars.ndefined = NVARS; nc.vars.value = vp; nc.old = &old; nc.safe_mode = 0; nc.nprocs = g_nprocs; nc.flags = NC_MODE_DEF; nc.format = IN_format;
    nc.h_align = H_ALIGN; nc.r_align = R_ALIGN; nc.v_align = 4; nc.h_minfree = IN_hminfree; nc.v_minfree = IN_vminfree; nc.begin_rec = OLD_begin_rec; nc.begin_var = OLD_begin_var; nc.numrecs = IN_numrecs;
    int r = ED(NC_begins)(&nc);
    CANARY(r == NC_NOERR && nc.begin_var == OLD_begin_var && nc.begin_rec > OLD_begin_rec, "only_record_section_moves"); CANARY(r == NC_NOERR && nc.begin_var > OLD_begin_var, "header_extent_grows");
    CANARY(r == NC_NOERR && nc.begin_var == OLD_begin_var && nc.begin_rec == OLD_begin_rec, "nothing_moves"); CANARY(r == NC_EVARSIZE, "evarsize");
}
