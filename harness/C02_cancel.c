/* C02 / C13 / C17: ncmpio_cancel (src/drivers/ncmpio/ncmpio_wait.c) on an enumerated queue shape.
 * Instance constants: NL lead requests with NN0..NN2 sub-requests each, NR ids named in the call,
 * KIND (0 = put queue, 1 = get queue).  Ids, flags, buffers, payload are symbolic.
 * View-level postcondition: every request that is not named is still pending, unchanged, with
 * consistent cross indices; every named request is gone, its id reset, its caller buffer swapped
 * back exactly once if it was left swapped, its attached-buffer slot released, its datatypes freed. */
#include <config.h>
#include <stdlib.h>
#include <pnetcdf.h>
#include <dispatch.h>
#include <ncmpio_NC.h>
#include "ghost.h"
#ifndef NL
#define NL 3
#endif
#ifndef NR
#define NR 1
#endif
#ifndef NN0
#define NN0 1
#endif
#ifndef NN1
#define NN1 2
#endif
#ifndef NN2
#define NN2 1
#endif
#ifndef KIND
#define KIND 0
#endif
#ifdef CANCEL_ALL
#define CANCEL_ALL_V 1
#else
#define CANCEL_ALL_V 0
#endif
#define NT (NN0 + (NL > 1 ? NN1 : 0) + (NL > 2 ? NN2 : 0))
static const int NNv[3] = { NN0, NN1, NN2 };

/* ---- ghost copies of the queue before the call, and inputs ---- */
NC_lead_req old_lead[NL]; NC_req old_req[NT]; int old_ids[NR];
int G;                              /* ghost lead index (arbitrary) */
int g_swap_cnt[NL];                 /* ghost: in-place swaps applied to caller buffer k */
static char ubuf[NL][8];
int IN_id[NL], IN_flag[NL], IN_reqid[NR], IN_abuf[NL];

/* callee contracts */
void ncmpii_in_swapn(void *buf, MPI_Offset nelems, int esize)
__CPROVER_assigns(__CPROVER_object_whole(buf), __CPROVER_object_whole(g_swap_cnt))
__CPROVER_ensures(g_swap_cnt[0] == __CPROVER_old(g_swap_cnt[0]) + ((buf == (void*)ubuf[0] && esize > 1 && nelems > 0) ? 1 : 0))
#if NL > 1
__CPROVER_ensures(g_swap_cnt[1] == __CPROVER_old(g_swap_cnt[1]) + ((buf == (void*)ubuf[1] && esize > 1 && nelems > 0) ? 1 : 0))
#endif
#if NL > 2
__CPROVER_ensures(g_swap_cnt[2] == __CPROVER_old(g_swap_cnt[2]) + ((buf == (void*)ubuf[2] && esize > 1 && nelems > 0) ? 1 : 0))
#endif
;

/* ---- spec helpers (single-level functions, constant loop bounds) ---- */
static inline int spec_named(int k)      /* lead k (old position) is named in the id list */
{
#ifdef CANCEL_ALL
    return 1;     /* NC_REQ_ALL / NC_PUT_REQ_ALL / NC_GET_REQ_ALL of this kind: every request is named */
#endif
    for (int i = 0; i < NR; i++) if (old_ids[i] != NC_REQ_NULL && old_ids[i] == old_lead[k].id) return 1;
    return 0;
}
static inline int spec_named_before(int g)     /* number of named leads at old positions < g */
{
    int n = 0;
    for (int k = 0; k < NL; k++) if (k < g) { int hit = 0; for (int i = 0; i < NR; i++) if (old_ids[i] != NC_REQ_NULL && old_ids[i] == old_lead[k].id) hit = 1; n += (CANCEL_ALL_V ? 1 : hit); }
    return n;
}
static inline int spec_sub_before(int g)       /* sub-requests of named leads at old positions < g */
{
    int n = 0;
    for (int k = 0; k < NL; k++) if (k < g) { int hit = 0; for (int i = 0; i < NR; i++) if (old_ids[i] != NC_REQ_NULL && old_ids[i] == old_lead[k].id) hit = 1; if (hit || CANCEL_ALL_V) n += old_lead[k].nonlead_num; }
    return n;
}
static inline int spec_types_of_named(void)   /* MPI datatypes owned by the named (get) requests */
{
    int n = 0;
    for (int k = 0; k < NL; k++) { int hit = 0; for (int i = 0; i < NR; i++) if (old_ids[i] != NC_REQ_NULL && old_ids[i] == old_lead[k].id) hit = 1;
        if (hit || CANCEL_ALL_V) n += (old_lead[k].imaptype != MPI_DATATYPE_NULL ? 1 : 0) + ((old_lead[k].flag & NC_REQ_BUF_TYPE_IS_CONTIG) ? 0 : 1); }
    return n;
}
static inline int spec_id_known(int id)
{
    for (int k = 0; k < NL; k++) if (old_lead[k].id == id) return 1;
    return 0;
}
#if KIND
#define LEADS(ncp) ((ncp)->get_lead_list)
#define REQS(ncp)  ((ncp)->get_list)
#define NLEADS(ncp) ((ncp)->numLeadGetReqs)
#define NREQS(ncp) ((ncp)->numGetReqs)
#else
#define LEADS(ncp) ((ncp)->put_lead_list)
#define REQS(ncp)  ((ncp)->put_list)
#define NLEADS(ncp) ((ncp)->numLeadPutReqs)
#define NREQS(ncp) ((ncp)->numPutReqs)
#endif
#define XBUF_OWNED(k) ((old_lead[k].flag & NC_REQ_XBUF_TO_BE_FREED) && old_lead[k].abuf_index < 0)
#define NEWPOS (G - spec_named_before(G))
#define SURVIVES (!spec_named(G))
static inline int spec_subreqs_kept(const NC *ncp, int newpos, int newoff)
{
    const NC_req *q = REQS(ncp);
    for (int j = 0; j < 2; j++) if (j < old_lead[G].nonlead_num) {
        if (q[newoff + j].lead_off != newpos) return 0;
        if (q[newoff + j].xbuf != old_req[old_lead[G].nonlead_off + j].xbuf) return 0;
        if (q[newoff + j].offset_start != old_req[old_lead[G].nonlead_off + j].offset_start) return 0;
        if (q[newoff + j].nelems != old_req[old_lead[G].nonlead_off + j].nelems) return 0;
    }
    return 1;
}
static inline int spec_abuf_wf(const NC *ncp)   /* size_used == sum of req_size below tail; tail entry (if any) in use */
{
    long long s = 0;
    for (int k = 0; k < NL; k++) if (k < ncp->abuf->tail) s += ncp->abuf->occupy_table[k].req_size;
    return ncp->abuf->tail >= 0 && ncp->abuf->tail <= NL && ncp->abuf->size_used == s &&
           (ncp->abuf->tail == 0 || ncp->abuf->occupy_table[ncp->abuf->tail - 1].is_used);
}

static inline int spec_usage_exact(const NC *ncp)   /* property level: usage reported == bytes of bputs still pending */
{
    long long s = 0;
    for (int k = 0; k < NL; k++) if (ncp->abuf->occupy_table[k].is_used) s += ncp->abuf->occupy_table[k].req_size;
    return ncp->abuf->size_used == s;
}
int g_pre_usage_exact;   /* ghost: the accounting was exact before the call */
static inline int spec_hole_below_live(void)     /* input class of known finding F15: a cancelled bput lies below one that stays pending */
{
    for (int k = 0; k < NL; k++) for (int m = 0; m < NL; m++) if (k < m && old_lead[k].abuf_index >= 0 && old_lead[m].abuf_index >= 0) {
        int hk = CANCEL_ALL_V, hm = CANCEL_ALL_V;
        for (int i = 0; i < NR; i++) { if (old_ids[i] != NC_REQ_NULL && old_ids[i] == old_lead[k].id) hk = 1; if (old_ids[i] != NC_REQ_NULL && old_ids[i] == old_lead[m].id) hm = 1; }
        if (hk && !hm) return 1;
    }
    return 0;
}
int ncmpio_cancel(void *ncdp, int num_req, int *req_ids, int *statuses)
#ifdef EXCLUDE_F15
__CPROVER_requires(!spec_hole_below_live())
#endif
#ifdef CANCEL_ALL
__CPROVER_requires((num_req == NC_REQ_ALL || num_req == (KIND ? NC_GET_REQ_ALL : NC_PUT_REQ_ALL)) && G >= 0 && G < NL)
#else
__CPROVER_requires(num_req == NR && G >= 0 && G < NL)
#endif
__CPROVER_assigns(req_ids != NULL: __CPROVER_object_whole(req_ids))
__CPROVER_assigns(statuses != NULL: __CPROVER_object_whole(statuses))
__CPROVER_assigns(__CPROVER_object_whole(((NC*)ncdp)),
                  __CPROVER_object_whole(LEADS((NC*)ncdp)), __CPROVER_object_whole(REQS((NC*)ncdp)),
                  __CPROVER_object_whole(((NC*)ncdp)->abuf), __CPROVER_object_whole(((NC*)ncdp)->abuf->occupy_table),
                  __CPROVER_object_whole(g_swap_cnt), __CPROVER_object_whole(ubuf), GH_TYPES)
__CPROVER_frees(LEADS((NC*)ncdp), REQS((NC*)ncdp), old_lead[0].start)
__CPROVER_frees(XBUF_OWNED(0): old_lead[0].xbuf)
#if NL > 1
__CPROVER_frees(old_lead[1].start)
__CPROVER_frees(XBUF_OWNED(1): old_lead[1].xbuf)
#endif
#if NL > 2
__CPROVER_frees(old_lead[2].start)
__CPROVER_frees(XBUF_OWNED(2): old_lead[2].xbuf)
#endif
/* C02: counts */
__CPROVER_ensures(NLEADS((NC*)ncdp) == NL - spec_named_before(NL)) /*@C02_lead_count_drops_by_number_named*/
__CPROVER_ensures(NREQS((NC*)ncdp) == NT - spec_sub_before(NL)) /*@C02_subrequest_count_drops_by_named_groups*/
#ifndef CANCEL_ALL
/* C02: a request that is not named stays pending, unchanged, with consistent cross indices */
__CPROVER_ensures(IMPLIES(SURVIVES, LEADS((NC*)ncdp) != NULL && LEADS((NC*)ncdp)[NEWPOS].id == old_lead[G].id &&
      LEADS((NC*)ncdp)[NEWPOS].buf == old_lead[G].buf && LEADS((NC*)ncdp)[NEWPOS].xbuf == old_lead[G].xbuf &&
      LEADS((NC*)ncdp)[NEWPOS].flag == old_lead[G].flag && LEADS((NC*)ncdp)[NEWPOS].abuf_index == old_lead[G].abuf_index &&
      LEADS((NC*)ncdp)[NEWPOS].varp == old_lead[G].varp && LEADS((NC*)ncdp)[NEWPOS].start == old_lead[G].start)) /*@C02_unnamed_request_unchanged*/
__CPROVER_ensures(IMPLIES(SURVIVES, LEADS((NC*)ncdp)[NEWPOS].nonlead_num == old_lead[G].nonlead_num &&
      LEADS((NC*)ncdp)[NEWPOS].nonlead_off == old_lead[G].nonlead_off - spec_sub_before(G))) /*@C02_unnamed_request_offsets_rebased*/
__CPROVER_ensures(IMPLIES(SURVIVES, spec_subreqs_kept((NC*)ncdp, NEWPOS, old_lead[G].nonlead_off - spec_sub_before(G)))) /*@C02_unnamed_subrequests_kept_and_point_back*/
/* C02: ids and statuses */
__CPROVER_ensures(IMPLIES(old_ids[0] != NC_REQ_NULL && spec_id_known(old_ids[0]), req_ids[0] == NC_REQ_NULL && statuses[0] == NC_NOERR)) /*@C02_named_id_reset_and_status_ok*/
__CPROVER_ensures(IMPLIES(old_ids[0] != NC_REQ_NULL && !spec_id_known(old_ids[0]), statuses[0] == NC_EINVAL_REQUEST && __CPROVER_return_value == NC_EINVAL_REQUEST)) /*@C02_unknown_id_reported*/
#else
__CPROVER_ensures(LEADS((NC*)ncdp) == NULL && REQS((NC*)ncdp) == NULL && __CPROVER_return_value == NC_NOERR) /*@C02_cancel_all_empties_queue*/
#endif
/* C13: caller buffer swapped back exactly once iff it was left swapped and the request is cancelled */
__CPROVER_ensures(g_swap_cnt[G] == ((KIND == 0 && spec_named(G) && (old_lead[G].flag & NC_REQ_BUF_BYTE_SWAP) && old_lead[G].nelems > 0) ? 1 : 0)) /*@C13_swapped_buffer_restored_exactly_for_cancelled*/
/* C13: attached-buffer slot released, accounting well-formed */
__CPROVER_ensures(IMPLIES(KIND == 0 && old_lead[G].abuf_index >= 0, ((NC*)ncdp)->abuf->occupy_table[old_lead[G].abuf_index].is_used == (spec_named(G) ? 0 : 1))) /*@C13_abuf_slot_released_iff_cancelled*/
__CPROVER_ensures(IMPLIES(KIND == 0, spec_abuf_wf((NC*)ncdp))) /*@C13_abuf_accounting_wellformed*/
__CPROVER_ensures(IMPLIES(KIND == 0 && g_pre_usage_exact, spec_usage_exact((NC*)ncdp))) /*@C13_usage_equals_bytes_of_pending_buffered_puts*/
/* C17: datatypes of cancelled get requests are released */
__CPROVER_ensures(IMPLIES(KIND == 1, g_type_live == __CPROVER_old(g_type_live) - spec_types_of_named())) /*@C17_datatypes_of_cancelled_requests_freed*/
;

static NC nc; static NC_var var; static NC_buf abuf; static NC_buf_status table[NL]; static char pool[NL][8];
int nondet_int(void);
void harness(void)
{
    ghost_setup(0);
    G = nondet_int(); __CPROVER_assume(G >= 0 && G < NL);
    NC_lead_req *leads = malloc(NL * sizeof(NC_lead_req));
    NC_req *reqs = malloc(NT * sizeof(NC_req));
    int *ids = malloc(NR * sizeof(int)), *sts = malloc(NR * sizeof(int));
    var.xsz = 4; var.ndims = 1;
    int off = 0, lastused = -1;
    for (int k = 0; k < NL; k++) {
        IN_id[k] = nondet_int(); IN_flag[k] = nondet_int(); IN_abuf[k] = nondet_int();
        __CPROVER_assume(IN_id[k] >= 0 && IN_id[k] < 1000 && (IN_id[k] & 1) == KIND);
        for (int m = 0; m < NL; m++) if (m < k) __CPROVER_assume(IN_id[m] != IN_id[k]);
        leads[k].id = IN_id[k];
        leads[k].flag = IN_flag[k] & (NC_REQ_BUF_BYTE_SWAP | NC_REQ_XBUF_TO_BE_FREED | NC_REQ_BUF_TYPE_IS_CONTIG | NC_REQ_STRIDE_NULL | NC_REQ_BUF_TYPE_CONVERT);
        leads[k].nonlead_off = off; leads[k].nonlead_num = NNv[k];
        leads[k].buf = ubuf[k]; leads[k].varp = &var; leads[k].nelems = nondet_int(); __CPROVER_assume(leads[k].nelems >= 0 && leads[k].nelems <= 2);
        leads[k].max_rec = 0; leads[k].bufcount = 1; leads[k].status = NULL; leads[k].itype = MPI_INT;
        leads[k].start = malloc(3 * sizeof(MPI_Offset));
        leads[k].abuf_index = (KIND == 0 && (IN_abuf[k] & 1)) ? k : -1;
        if (leads[k].abuf_index >= 0) { leads[k].xbuf = pool[k]; leads[k].flag &= ~(NC_REQ_XBUF_TO_BE_FREED | NC_REQ_BUF_BYTE_SWAP); lastused = k; }
        else if (leads[k].flag & NC_REQ_XBUF_TO_BE_FREED) { leads[k].xbuf = malloc(8); leads[k].flag &= ~NC_REQ_BUF_BYTE_SWAP; }
        else leads[k].xbuf = ubuf[k];
        if (KIND == 1) {
            leads[k].flag &= ~NC_REQ_BUF_BYTE_SWAP;
            if (leads[k].flag & NC_REQ_BUF_TYPE_IS_CONTIG) leads[k].buftype = MPI_INT; else MPI_Type_dup(MPI_INT, &leads[k].buftype);
            if (IN_abuf[k] & 2) MPI_Type_dup(MPI_INT, &leads[k].imaptype); else leads[k].imaptype = MPI_DATATYPE_NULL;
        } else { leads[k].buftype = MPI_INT; leads[k].flag |= NC_REQ_BUF_TYPE_IS_CONTIG; leads[k].imaptype = MPI_DATATYPE_NULL; }
        table[k].is_used = leads[k].abuf_index >= 0; table[k].req_size = 8; table[k].buf_addr = 0;
        for (int j = 0; j < 2; j++) if (j < NNv[k]) {
            reqs[off + j].lead_off = k; reqs[off + j].xbuf = (char *)leads[k].xbuf + 4 * j; reqs[off + j].offset_start = nondet_ll();
            reqs[off + j].offset_end = 0; reqs[off + j].nelems = nondet_ll(); reqs[off + j].start = leads[k].start;
        }
        off += NNv[k];
        old_lead[k] = leads[k];
    }
    for (int t = 0; t < NT; t++) old_req[t] = reqs[t];
    abuf.table_size = NL; abuf.occupy_table = table; abuf.tail = lastused + 1; abuf.size_used = 8 * (lastused + 1); abuf.size_allocated = 8 * NL; abuf.buf = pool;
    nc.abuf = &abuf;
    if (KIND) { nc.get_lead_list = leads; nc.get_list = reqs; nc.numLeadGetReqs = NL; nc.numGetReqs = NT; nc.put_lead_list = NULL; nc.put_list = NULL; nc.numLeadPutReqs = 0; nc.numPutReqs = 0; }
    else { nc.put_lead_list = leads; nc.put_list = reqs; nc.numLeadPutReqs = NL; nc.numPutReqs = NT; nc.get_lead_list = NULL; nc.get_list = NULL; nc.numLeadGetReqs = 0; nc.numGetReqs = 0; }
    for (int i = 0; i < NR; i++) { IN_reqid[i] = nondet_int(); __CPROVER_assume(IN_reqid[i] >= -1 && IN_reqid[i] < 1000); ids[i] = IN_reqid[i]; old_ids[i] = ids[i]; sts[i] = 12345; }
    for (int k = 0; k < NL; k++) g_swap_cnt[k] = 0;
    g_pre_usage_exact = spec_usage_exact(&nc);
#ifdef CANCEL_ALL
    int r = ncmpio_cancel(&nc, CANCEL_ALL, NULL, NULL);   /* concrete constant: NC_REQ_ALL or the kind's ALL */
    CANARY(r == NC_NOERR, "all_cancelled");
#else
    int r = ncmpio_cancel(&nc, NR, ids, sts);
    CANARY(r == NC_NOERR && (KIND ? nc.numLeadGetReqs : nc.numLeadPutReqs) == NL - 1, "one_cancelled");
    CANARY(r == NC_EINVAL_REQUEST, "unknown_id");
#if NR > 1
    CANARY(r == NC_NOERR && (KIND ? nc.numLeadGetReqs : nc.numLeadPutReqs) == NL - 2, "two_cancelled");
#endif
#endif
}
