/* C16 / C05 / C08 / C11: fill_var_rec (static, src/drivers/ncmpio/ncmpio_fill.c): one record (or a
 * whole fixed-size variable) is filled, the elements being divided among the processes.
 * Instance: NPROCS processes (enumerated), rank and variable length symbolic. */
#include <config.h>
#include <stdlib.h>
#include <pnetcdf.h>
#include <dispatch.h>
#include <ncmpio_NC.h>
#include "ghost.h"
int IN_flags, IN_format, IN_rank, IN_nprocs, IN_num_rec_vars; long long IN_numrecs, IN_new_numrecs, IN_varlen, IN_recno; _Bool IN_isrec; int IN_xsz;
#include "sync_contracts.h"
#ifndef NPROCS
#define NPROCS 3
#endif
#ifndef RANK
#define RANK 0
#endif
#ifndef XSZ
#define XSZ 4
#endif
#define FV(sym) FL(ncmpio_fill, sym)

int g_fill_buf_ret;
int FV(fill_var_buf)(const NC_var *varp, MPI_Offset bnelems, void *buf)
__CPROVER_assigns(__CPROVER_object_whole(buf), g_fill_buf_ret)
__CPROVER_ensures(g_fill_buf_ret == __CPROVER_return_value)
;
/* share of rank r when n elements are divided among P processes: contiguous, in rank order,
 * sizes differing by at most one, the larger shares first */
#define SPEC_Q(n) ((n) / NPROCS)
#define SPEC_R(n) ((n) % NPROCS)
#define SPEC_COUNT(n, r) (SPEC_Q(n) + ((r) < SPEC_R(n) ? 1 : 0))
#define SPEC_START(n, r) ((r) * SPEC_Q(n) + ((r) < SPEC_R(n) ? (r) : SPEC_R(n)))
#define ISREC(varp) ((varp)->shape != NULL && (varp)->shape[0] == NC_UNLIMITED)
#define VARLEN(varp) ((varp)->ndims == 0 ? 1 : ((varp)->ndims == 1 && ISREC(varp)) ? 1 : ISREC(varp) ? (varp)->dsizes[1] : (varp)->dsizes[0])

int FV(fill_var_rec)(NC *ncp, NC_var *varp, MPI_Offset recno)
__CPROVER_requires(ncp != NULL && WF_NC_BASIC(ncp) && WF_NC_STATS_LOW(ncp) && ncp->nprocs == NPROCS && ncp->recsize >= 0 && ncp->recsize < ((long long)1 << 40))
__CPROVER_requires(varp->ndims >= 1 && varp->ndims <= 2 && varp->shape != NULL && varp->dsizes != NULL && varp->begin >= 0 && varp->begin < ((long long)1 << 40) &&
                   varp->xsz == XSZ && ncp->rank == RANK && VARLEN(varp) >= 0 && VARLEN(varp) < 100000 && recno >= 0 && recno <= 3)   /* small record number: recsize*recno stays cheap for the solver */
__CPROVER_requires(g_coll_n == 0 && g_io_n == 0 && g_nwrites == 0 && g_io_failed == 0 && g_type_live == 0)
__CPROVER_assigns(ncp->numrecs, ncp->put_size, g_fill_buf_ret, GHOST_ASSIGNS)
/* C16: this rank fills exactly its share of the variable / record */
__CPROVER_ensures(IMPLIES(g_fill_buf_ret == NC_NOERR, g_io_count[0] == SPEC_COUNT(VARLEN(varp), RANK) * XSZ)) /*@C16_fills_exactly_its_share_length*/
__CPROVER_ensures(g_io_off[0] == varp->begin + (ISREC(varp) ? ncp->recsize * recno : 0) + SPEC_START(VARLEN(varp), RANK) * XSZ) /*@C16_share_starts_where_previous_rank_ends*/
__CPROVER_ensures(g_io_n >= 1 && g_io_kind[0] == IO_WRITE_AT_ALL) /*@C16_one_data_write_per_process*/
/* C05 */
__CPROVER_ensures(ncp->numrecs >= __CPROVER_old(ncp->numrecs)) /*@C05_numrecs_never_decreases*/
__CPROVER_ensures(IMPLIES(ISREC(varp) && __CPROVER_return_value == NC_NOERR, ncp->numrecs == LLMAX(__CPROVER_old(ncp->numrecs), g_agreed_ll[2]) && g_agreed_ll[2] >= recno + 1)) /*@C05_record_count_covers_filled_record_on_all_ranks*/
/* C11 */
__CPROVER_ensures(IMPLIES(g_io_failed, __CPROVER_return_value != NC_NOERR)) /*@C11_io_failure_reported*/
/* C08: the collective sequence does not depend on local success */
__CPROVER_ensures(g_coll_n >= 2 && g_coll_kind[0] == COLL_FILE_SET_VIEW && g_coll_kind[1] == COLL_FILE_WRITE_AT_ALL) /*@C08_view_and_write_always*/
__CPROVER_ensures(IMPLIES(ISREC(varp), g_coll_n >= 3 && g_coll_kind[2] == COLL_ALLREDUCE)) /*@C08_record_count_allreduce_despite_local_error*/
/* C17 */
__CPROVER_ensures(g_type_live == 0) /*@C17_no_datatype_left*/
;

static NC nc; static NC_var var; static MPI_Offset shp[2], ds[2];
void harness(void)
{
    ghost_setup(1);
    g_nprocs = NPROCS; g_rank = RANK;   /* enumerated: the share arithmetic is then linear */
    IN_flags = nondet_int(); IN_format = nondet_int(); IN_numrecs = nondet_ll(); IN_num_rec_vars = nondet_int();
    IN_varlen = nondet_ll(); IN_recno = nondet_ll(); IN_isrec = nondet_bool(); IN_xsz = nondet_int(); IN_rank = g_rank;
    nc.flags = IN_flags; nc.format = IN_format; nc.numrecs = IN_numrecs; nc.vars.num_rec_vars = IN_num_rec_vars; nc.rank = g_rank; nc.nprocs = g_nprocs;
    nc.put_size = 0; nc.get_size = 0; nc.recsize = nondet_ll(); nc.collective_fh = MPI_FILE_NULL; nc.independent_fh = MPI_FILE_NULL; nc.comm = MPI_COMM_WORLD;
    var.ndims = 2; var.xsz = XSZ; IN_xsz = XSZ; var.shape = shp; var.dsizes = ds; var.begin = nondet_ll();
    shp[0] = IN_isrec ? NC_UNLIMITED : 5; shp[1] = 7; ds[1] = IN_varlen; ds[0] = IN_varlen;
    int r = FV(fill_var_rec)(&nc, &var, IN_recno);
    CANARY(r == NC_NOERR && IN_isrec && nc.numrecs > IN_numrecs, "grew");
    CANARY(r == NC_NOERR && !IN_isrec, "fixed_filled");
    CANARY(r != NC_NOERR && g_io_failed, "failure_reported");
    CANARY(g_fill_buf_ret != NC_NOERR, "bad_fill_attribute");
}
