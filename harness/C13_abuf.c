/* C13: the attached buffer of the bput calls is a bump allocator (ncmpio_abuf_malloc / ncmpio_abuf_dealloc,
 * regenerated ncmpio_i_getput.c): a new request gets the bytes right after everything handed out so far,
 * inside the attached buffer, never overlapping a pending request's bytes; the accounting (size_used,
 * occupancy table) changes by exactly this request; dealloc undoes the last allocation.
 * Instance: table of the library's size (128 entries), tail position TAIL enumerated; sizes symbolic. */
#include <config.h>
#include <stdlib.h>
#include <pnetcdf.h>
#include <dispatch.h>
#include <ncmpio_NC.h>
#include "vh.h"
#ifndef TAIL
#define TAIL 2
#endif
long long IN_alloc, IN_used, IN_nbytes, IN_gsize, IN_goff; int G; _Bool IN_gused; char *IN_base; NC_buf_status *IN_table;

#ifndef H_dealloc
int ncmpio_abuf_malloc(NC *ncp, MPI_Offset nbytes, void **buf, int *abuf_index)
__CPROVER_requires(ncp->abuf->tail == TAIL && ncp->abuf->table_size == NC_ABUF_DEFAULT_TABLE_SIZE && ncp->abuf->size_allocated == IN_alloc && ncp->abuf->size_used == IN_used && nbytes == IN_nbytes && ncp->abuf->buf == IN_base)
__CPROVER_requires(IN_alloc >= 0 && IN_alloc <= 4096 && IN_used >= 0 && IN_used <= IN_alloc && IN_nbytes >= 0 && IN_nbytes <= IN_alloc - IN_used)   /* the caller has tested NC_EINSUFFBUF */
__CPROVER_requires(TAIL == 0 || (0 <= G && G < TAIL && ncp->abuf->occupy_table[G].req_size == IN_gsize && (ncp->abuf->occupy_table[G].is_used != 0) == IN_gused && IN_goff >= 0 && IN_goff <= 4096 && IN_gsize >= 0 && IN_gsize <= 4096 && IN_goff + IN_gsize <= IN_used))
__CPROVER_assigns(*buf, *abuf_index, ncp->abuf->size_used, ncp->abuf->tail, ncp->abuf->table_size, ncp->abuf->occupy_table, __CPROVER_object_whole(IN_table))
__CPROVER_frees(IN_table)
__CPROVER_ensures(__CPROVER_return_value == NC_NOERR && *buf == IN_base + IN_used && *abuf_index == TAIL) /*@new_request_gets_the_bytes_after_everything_handed_out*/
__CPROVER_ensures((char *)*buf + IN_nbytes <= IN_base + IN_alloc) /*@C13_inside_the_attached_buffer*/
__CPROVER_ensures(IMPLIES(TAIL > 0, (char *)*buf >= IN_base + IN_goff + IN_gsize)) /*@C13_never_overlaps_the_bytes_of_an_earlier_request*/
__CPROVER_ensures(ncp->abuf->size_used == IN_used + IN_nbytes && ncp->abuf->tail == TAIL + 1 && ncp->abuf->occupy_table[TAIL].is_used == 1 && ncp->abuf->occupy_table[TAIL].req_size == IN_nbytes) /*@accounting_grows_by_exactly_this_request*/
__CPROVER_ensures(ncp->abuf->table_size > ncp->abuf->tail) /*@table_always_has_a_free_entry*/
__CPROVER_ensures(IMPLIES(TAIL > 0, ncp->abuf->occupy_table[G].req_size == IN_gsize && (ncp->abuf->occupy_table[G].is_used != 0) == IN_gused)) /*@earlier_entries_unchanged_also_when_the_table_grows*/
;
#else
int ncmpio_abuf_dealloc(NC *ncp, int abuf_index)
__CPROVER_requires(TAIL >= 1 && ncp->abuf->tail == TAIL && abuf_index == TAIL - 1 && ncp->abuf->size_used == IN_used && ncp->abuf->occupy_table[TAIL - 1].req_size == IN_nbytes && IN_nbytes >= 0 && IN_nbytes <= IN_used && IN_used <= 4096)
__CPROVER_requires(TAIL == 1 || (0 <= G && G < TAIL - 1 && ncp->abuf->occupy_table[G].req_size == IN_gsize && (ncp->abuf->occupy_table[G].is_used != 0) == IN_gused))
__CPROVER_assigns(ncp->abuf->size_used, ncp->abuf->tail, ncp->abuf->occupy_table[TAIL - 1])
__CPROVER_ensures(__CPROVER_return_value == NC_NOERR && ncp->abuf->size_used == IN_used - IN_nbytes && ncp->abuf->tail == TAIL - 1 && ncp->abuf->occupy_table[TAIL - 1].is_used == 0) /*@last_allocation_undone*/
__CPROVER_ensures(IMPLIES(TAIL > 1, ncp->abuf->occupy_table[G].req_size == IN_gsize && (ncp->abuf->occupy_table[G].is_used != 0) == IN_gused)) /*@earlier_entries_unchanged*/
;
#endif

static NC nc; static NC_buf ab;
void harness(void)
{
    IN_alloc = nondet_ll(); IN_used = nondet_ll(); IN_nbytes = nondet_ll(); IN_gsize = nondet_ll(); IN_goff = nondet_ll(); G = nondet_int(); IN_gused = nondet_bool();
    __CPROVER_assume(IN_alloc >= 0 && IN_alloc <= 4096 && IN_used >= 0 && IN_used <= IN_alloc && IN_gsize >= 0 && IN_gsize <= 4096 && IN_goff >= 0 && IN_goff <= 4096 && IN_goff + IN_gsize <= IN_used);
    __CPROVER_assume(TAIL == 0 || (0 <= G && G < TAIL));
    IN_base = malloc(4096); IN_table = malloc(NC_ABUF_DEFAULT_TABLE_SIZE * sizeof(NC_buf_status));
    ab.buf = IN_base; ab.size_allocated = IN_alloc; ab.size_used = IN_used; ab.table_size = NC_ABUF_DEFAULT_TABLE_SIZE; ab.tail = TAIL; ab.occupy_table = IN_table; nc.abuf = &ab;
    if (TAIL > 0 && G < TAIL) { IN_table[G].req_size = IN_gsize; IN_table[G].is_used = IN_gused; }
#ifndef H_dealloc
    __CPROVER_assume(IN_nbytes >= 0 && IN_nbytes <= IN_alloc - IN_used);
    void *b = NULL; int idx = -1;
    int r = ncmpio_abuf_malloc(&nc, IN_nbytes, &b, &idx);
    CANARY(r == NC_NOERR && ab.table_size > NC_ABUF_DEFAULT_TABLE_SIZE, "table_grown"); CANARY(r == NC_NOERR && IN_nbytes == IN_alloc - IN_used && IN_nbytes > 0, "buffer_exactly_filled");
#else
    __CPROVER_assume(IN_nbytes >= 0 && IN_nbytes <= IN_used && (TAIL == 1 || G < TAIL - 1));
    IN_table[TAIL - 1].req_size = IN_nbytes; IN_table[TAIL - 1].is_used = 1;
    int r = ncmpio_abuf_dealloc(&nc, TAIL - 1);
    CANARY(r == NC_NOERR && ab.tail == 0, "table_empty_again");
#endif
}
