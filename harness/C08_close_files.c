/* C08 / C11 / C06: ncmpio_close_files (src/drivers/ncmpio/ncmpio_close.c) - closes the two MPI file handles
 * and, when called from abort on a newly created file, removes the file.
 *   C08/C11: the collective calls issued (close of the collective handle, the barrier after the removal)
 *            do not depend on rank-local failures - a failure "never leaves other processes blocked";
 *            every failure is returned.
 *   C06:     the file is removed iff doUnlink, by the root, after both handles are closed.
 * The MPI calls are harness stubs recording the call sequence; each may fail (symbolic). */
#include <config.h>
#include <stdlib.h>
#include <pnetcdf.h>
#include <dispatch.h>
#include <ncmpio_NC.h>
#include "vh.h"
int IN_nprocs, IN_rank, IN_doUnlink; _Bool IN_have_indep, IN_have_coll, IN_fail_close_indep, IN_fail_close_coll, IN_fail_delete;
int g_ncalls, g_seq[6]; int g_closed_indep, g_closed_coll, g_deleted, g_barriers, g_deleted_after_closes; const char *g_deleted_name;
enum { K_CLOSE_INDEP = 1, K_CLOSE_COLL, K_DELETE, K_BARRIER };
static MPI_File FH_INDEP, FH_COLL; static char g_name[4] = "f";
static void rec(int k) { if (g_ncalls < 6) g_seq[g_ncalls] = k; g_ncalls++; }
int MPI_File_close(MPI_File *fh)
{
    _Bool indep = (*fh == FH_INDEP);
    rec(indep ? K_CLOSE_INDEP : K_CLOSE_COLL); if (indep) g_closed_indep++; else g_closed_coll++;
    *fh = MPI_FILE_NULL;
    return (indep ? IN_fail_close_indep : IN_fail_close_coll) ? MPI_ERR_IO : MPI_SUCCESS;
}
int MPI_File_delete(const char *filename, MPI_Info info)
{
    rec(K_DELETE); g_deleted++; g_deleted_name = filename;
    g_deleted_after_closes = (g_closed_indep == (IN_have_indep ? 1 : 0)) && (g_closed_coll == ((IN_have_coll && IN_nprocs > 1) ? 1 : 0));
    return IN_fail_delete ? MPI_ERR_IO : MPI_SUCCESS;
}
int MPI_Barrier(MPI_Comm comm) { rec(K_BARRIER); g_barriers++; return MPI_SUCCESS; }
int MPI_Error_class(int errorcode, int *errorclass) { *errorclass = errorcode; return MPI_SUCCESS; }
int MPI_Error_string(int errorcode, char *string, int *resultlen) { string[0] = 0; *resultlen = 0; return MPI_SUCCESS; }
#define ANYFAIL ((IN_have_indep && IN_fail_close_indep) || (IN_have_coll && IN_nprocs > 1 && IN_fail_close_coll) || (IN_doUnlink && IN_rank == 0 && IN_fail_delete))

int ncmpio_close_files(NC *ncp, int doUnlink)
__CPROVER_requires(ncp->nprocs == IN_nprocs && ncp->rank == IN_rank && doUnlink == IN_doUnlink && IN_nprocs >= 1 && IN_nprocs <= 4 && IN_rank >= 0 && IN_rank < IN_nprocs && ncp->path == g_name)
__CPROVER_requires(ncp->independent_fh == (IN_have_indep ? FH_INDEP : MPI_FILE_NULL) && ncp->collective_fh == (IN_have_coll ? FH_COLL : MPI_FILE_NULL) && g_ncalls == 0 && g_closed_indep == 0 && g_closed_coll == 0 && g_deleted == 0 && g_barriers == 0)
__CPROVER_assigns(ncp->independent_fh, ncp->collective_fh, g_ncalls, __CPROVER_object_whole(g_seq), g_closed_indep, g_closed_coll, g_deleted, g_barriers, g_deleted_after_closes, g_deleted_name)
__CPROVER_ensures(g_closed_coll == ((IN_have_coll && IN_nprocs > 1) ? 1 : 0)) /*@C08_collective_handle_closed_whatever_happens_to_the_independent_one*/
__CPROVER_ensures(g_barriers == ((IN_doUnlink && IN_nprocs > 1) ? 1 : 0)) /*@C08_barrier_after_the_removal_whatever_the_root_experiences*/
__CPROVER_ensures(g_closed_indep == (IN_have_indep ? 1 : 0)) /*@C17_independent_handle_closed*/
__CPROVER_ensures(g_deleted == ((IN_doUnlink && IN_rank == 0) ? 1 : 0) && IMPLIES(g_deleted == 1, g_deleted_name == g_name && g_deleted_after_closes)) /*@C06_file_removed_iff_requested_by_the_root_after_the_handles_are_closed*/
__CPROVER_ensures(IFF(__CPROVER_return_value != NC_NOERR, ANYFAIL)) /*@C11_every_failure_reported*/
;

static NC nc;
void harness(void)
{
    IN_nprocs = nondet_int(); IN_rank = nondet_int(); IN_doUnlink = nondet_int(); IN_have_indep = nondet_bool(); IN_have_coll = nondet_bool();
    IN_fail_close_indep = nondet_bool(); IN_fail_close_coll = nondet_bool(); IN_fail_delete = nondet_bool();
    __CPROVER_assume(IN_nprocs >= 1 && IN_nprocs <= 4 && IN_rank >= 0 && IN_rank < IN_nprocs);
    FH_INDEP = (MPI_File)malloc(1); FH_COLL = (MPI_File)malloc(1);
    nc.nprocs = IN_nprocs; nc.rank = IN_rank; nc.path = g_name; nc.mpiinfo = MPI_INFO_NULL; nc.independent_fh = IN_have_indep ? FH_INDEP : MPI_FILE_NULL; nc.collective_fh = IN_have_coll ? FH_COLL : MPI_FILE_NULL;
    g_ncalls = 0; g_closed_indep = 0; g_closed_coll = 0; g_deleted = 0; g_barriers = 0;
    int r = ncmpio_close_files(&nc, IN_doUnlink);
    CANARY(r == NC_NOERR && g_deleted == 1, "removed"); CANARY(r != NC_NOERR && g_barriers == 1, "failed_removal_still_synchronised"); CANARY(r != NC_NOERR && g_closed_coll == 1 && IN_fail_close_indep, "independent_close_failed_collective_still_closed");
}
