/* C12: replay of the burst-buffer log - ncbbio_log_flush_core (src/drivers/ncbbio/ncbbio_log_flush.c,
 * compiled with -DENABLE_BURST_BUFFER).  For any flush-buffer size (one entry ... whole log) every valid
 * log entry is replayed exactly once, in log order, with exactly the bytes that were logged for it, a
 * cancelled entry is skipped, and the staging buffer is not overwritten before the replayed puts of
 * the previous batch were waited for.
 * The shared-file layer and the underlying driver (iput_var / wait through the driver table) are
 * harness stubs with bodies: the data-log is a ghost position counter, every byte of the staging
 * buffer remembers the log position it was read from.
 * Instance: NENT vara entries of 1..4 data bytes (symbolic), validity and buffer size symbolic. */
#include <config.h>
#include <stdlib.h>
#include <unistd.h>
#include <pnetcdf.h>
#include <dispatch.h>
#include <ncbbio_driver.h>
#include "ghost.h"
#ifndef NENT
#define NENT 3
#endif
#define BUFMAX 16
#define ESZ (sizeof(NC_bb_metadataentry) + 3 * sizeof(MPI_Offset))
long long g_pos; long long g_src[BUFMAX]; int g_reads, g_seeks;
int g_put_calls, g_put_entry[NENT + 1], g_waited, g_wait_calls, g_wait_n[NENT + 3], g_wait_mode[NENT + 3];
long long IN_len[NENT]; _Bool IN_valid[NENT]; long long IN_flushbuf; int IN_flag; int G;
#define LOGPOS(i) (8 + ((i) > 0 ? IN_len[0] : 0) + ((i) > 1 ? IN_len[1] : 0) + ((i) > 2 ? IN_len[2] : 0) + ((i) > 3 ? IN_len[3] : 0))
static inline int spec_nvalid(void) { int n = 0; for (int i = 0; i < NENT; i++) n += IN_valid[i]; return n; }
static inline int spec_kth_valid(int k) { int n = 0; for (int i = 0; i < NENT; i++) if (IN_valid[i]) { if (n == k) return i; n++; } return -1; }

/* trusted: the shared log file is a byte stream with one position */
int ncbbio_sharedfile_seek(NC_bb_sharedfile *f, off_t offset, int whence)
{
    g_seeks++;
    if (whence == SEEK_SET) g_pos = offset; else if (whence == SEEK_CUR) g_pos += offset; else __CPROVER_assert(0, "seek_mode_set_or_cur");
    return NC_NOERR;
}
int ncbbio_sharedfile_read(NC_bb_sharedfile *f, void *buf, size_t count)
{
    __CPROVER_assert(g_put_calls == g_waited, "staging_buffer_not_overwritten_before_the_wait_of_the_previous_batch");
    __CPROVER_assert(count >= 1 && count <= BUFMAX && __CPROVER_POINTER_OFFSET(buf) + count <= BUFMAX, "read_fits_the_staging_buffer");
    size_t o = __CPROVER_POINTER_OFFSET(buf);
    for (size_t k = 0; k < BUFMAX; k++) if (k < count && o + k < BUFMAX) g_src[o + k] = g_pos + k;
    g_pos += count; g_reads++;
    return NC_NOERR;
}
/* the driver underneath: records which bytes each replayed put is handed */
static int stub_iput_var(void *ncp, int varid, const MPI_Offset *start, const MPI_Offset *count, const MPI_Offset *stride, const MPI_Offset *imap,
                         const void *buf, MPI_Offset bufcount, MPI_Datatype buftype, int *reqid, int reqMode)
{
    __CPROVER_assert(varid >= 0 && varid < NENT && IN_valid[varid], "only_valid_entries_are_replayed");
    __CPROVER_assert(g_put_calls < NENT, "no_entry_replayed_twice");
    size_t o = __CPROVER_POINTER_OFFSET(buf);
    __CPROVER_assert(o + IN_len[varid] <= BUFMAX && g_src[o] == LOGPOS(varid) && g_src[o + IN_len[varid] - 1] == LOGPOS(varid) + IN_len[varid] - 1, "entry_replayed_with_the_bytes_logged_for_it");
    __CPROVER_assert(start[0] == 100 + varid && count[0] == IN_len[varid] && stride == NULL, "entry_replayed_with_its_own_start_and_count");
    g_put_entry[g_put_calls] = varid; *reqid = 2 * g_put_calls; g_put_calls++;
    return NC_NOERR;
}
static int stub_wait(void *ncp, int num_reqs, int *req_ids, int *statuses, int reqMode)
{
    __CPROVER_assert(g_wait_calls < NENT + 3, "bounded_number_of_waits");
    g_wait_n[g_wait_calls] = num_reqs; g_wait_mode[g_wait_calls] = reqMode; g_wait_calls++;
    __CPROVER_assert(num_reqs == g_put_calls - g_waited, "wait_names_exactly_the_puts_of_this_batch");
    for (int k = 0; k < NENT; k++) if (k < num_reqs) statuses[k] = NC_NOERR;
    g_waited = g_put_calls;
    return NC_NOERR;
}

int ncbbio_log_flush_core(NC_bb *ncbbp)
__CPROVER_requires(ncbbp->metaidx.nused == NENT && ncbbp->entrydatasize.nused == NENT && g_put_calls == 0 && g_waited == 0 && g_wait_calls == 0 && g_reads == 0 && 0 <= G && G < NENT)
__CPROVER_requires(ncbbp->flushbuffersize == IN_flushbuf && ncbbp->flag == IN_flag && g_coll_n == 0)
__CPROVER_assigns(g_pos, __CPROVER_object_whole(g_src), g_reads, g_seeks, g_put_calls, __CPROVER_object_whole(g_put_entry), g_waited, g_wait_calls, __CPROVER_object_whole(g_wait_n), __CPROVER_object_whole(g_wait_mode),
                  __CPROVER_object_whole(ncbbp->putlist.reqs), GH_COLL)
__CPROVER_ensures(__CPROVER_return_value == NC_NOERR && g_put_calls == spec_nvalid() && g_waited == g_put_calls) /*@every_valid_entry_replayed_once_and_waited_for*/
__CPROVER_ensures(IMPLIES(G < spec_nvalid(), g_put_entry[G] == spec_kth_valid(G))) /*@entries_replayed_in_log_order*/
__CPROVER_ensures(IMPLIES(!(IN_flag & NC_MODE_INDEP), g_coll_n == 1 && g_coll_kind[0] == COLL_ALLREDUCE && g_wait_calls == g_agreed_ll[0] && g_wait_mode[0] == NC_REQ_COLL)) /*@C08_collective_flush_waits_the_agreed_number_of_rounds*/
;

static NC_bb bb; static NC_bb_metadataptr ents[NENT]; static size_t sizes[NENT]; static struct PNC_driver drv; static NC_bb_put_req reqs[NENT];
void harness(void)
{
    ghost_setup(0);
    G = nondet_int(); __CPROVER_assume(0 <= G && G < NENT); IN_flushbuf = nondet_ll(); IN_flag = nondet_int(); __CPROVER_assume(IN_flushbuf >= 0 && IN_flushbuf <= 64);
    size_t hdr = sizeof(NC_bb_metadataheader); char *meta = malloc(hdr + NENT * ESZ);
    NC_bb_metadataheader *h = (NC_bb_metadataheader *)meta; h->entry_begin = hdr; h->num_entries = NENT;
    long long total = 0, maxe = 0;
    for (int i = 0; i < NENT; i++) {
        IN_len[i] = nondet_ll(); __CPROVER_assume(IN_len[i] >= 1 && IN_len[i] <= 4); IN_valid[i] = nondet_bool();
        NC_bb_metadataentry *e = (NC_bb_metadataentry *)(meta + hdr + i * ESZ); MPI_Offset *v = (MPI_Offset *)(e + 1);
        e->esize = ESZ; e->api_kind = NC_LOG_API_KIND_VARA; e->itype = NC_LOG_TYPE_SCHAR; e->varid = i; e->ndims = 1; e->data_off = 8 + total; e->data_len = IN_len[i];
        v[0] = 100 + i; v[1] = IN_len[i]; v[2] = 1;
        ents[i].ptr = e; ents[i].valid = IN_valid[i]; ents[i].reqid = nondet_bool() ? i : -1; sizes[i] = IN_len[i]; total += IN_len[i]; if (IN_len[i] > maxe) maxe = IN_len[i];
        reqs[i].valid = 1; reqs[i].ready = 0;
    }
    bb.metadata.buffer = meta; bb.metaidx.entries = ents; bb.metaidx.nused = NENT; bb.entrydatasize.values = sizes; bb.entrydatasize.nused = NENT;
    bb.datalogsize = 8 + total; bb.flushbuffersize = IN_flushbuf; bb.maxentrysize = maxe; bb.flag = IN_flag; bb.putlist.reqs = reqs; bb.putlist.nalloc = NENT;
    drv.iput_var = stub_iput_var; drv.wait = stub_wait; bb.ncmpio_driver = &drv; bb.ncp = NULL; g_nprocs = 2; g_rank = 0;
    g_put_calls = 0; g_waited = 0; g_wait_calls = 0; g_reads = 0; g_seeks = 0; g_pos = 0;
    __CPROVER_assume(g_agreed_ll[0] <= NENT + 2);   /* other processes need at most two more rounds than the longest possible local replay */
    int r = ncbbio_log_flush_core(&bb);
    CANARY(r == NC_NOERR && g_wait_calls >= 3 && (IN_flag & NC_MODE_INDEP), "one_entry_per_batch"); CANARY(r == NC_NOERR && g_wait_calls == 1 && g_put_calls == NENT, "whole_log_in_one_batch");
    CANARY(r == NC_NOERR && g_put_calls == NENT - 1 && !IN_valid[NENT > 1 ? 1 : 0], "cancelled_entry_skipped"); CANARY(r == NC_NOERR && g_reads >= 2 && g_wait_calls == 1, "read_in_two_pieces_around_a_gap");
}
