/* C17 / C01: filetype_create_vara (static, src/drivers/ncmpio/ncmpio_filetype.c, real code): file type
 * and starting offset of a vara request.  Callees by contract: is_request_contiguous (enforced in C01),
 * type_create_subarray64 (enforced in C18/C17: hands back one datatype on success, keeps none on
 * failure); ncmpio_first_offset, ncmpii_nc2mpitype and the MPI datatype calls are harness stubs with
 * bodies (trusted) that count live datatypes and record the hvector parameters.
 * Instance: a record variable with NDIMS dimensions (enumerated); start, count, record size, begin
 * symbolic; the record size is an enumerated constant.
 *   C17  a failing call keeps no MPI datatype; a succeeding call hands back exactly one (or MPI_BYTE
 *        and none for a contiguous request);
 *   C01  record variable: count[0] copies of the per-record type, one record size apart, starting
 *        at begin + start[0]*recsize. */
#include <config.h>
#include <stdlib.h>
#include <pnetcdf.h>
#include <dispatch.h>
#include <ncmpio_NC.h>
#include "vh.h"
#ifndef NDIMS
#define NDIMS 2
#endif
#ifndef RECSIZE
#define RECSIZE 12LL
#endif
#define FT(sym) FL(ncmpio_filetype, sym)

long long IN_start0, IN_count0, IN_recsize, IN_begin; int IN_contig, IN_sub_err, IN_first_err;
int g_live, g_hv_calls; long long g_hv_count, g_hv_bl, g_hv_stride; MPI_Datatype g_hv_old;
#define HBASE 0x4000UL
#define HANDLE(k) ((MPI_Datatype)(HBASE + 16UL * (unsigned long)(k)))
#define IS_MODEL(t) ((unsigned long)(t) >= HBASE && (unsigned long)(t) < HBASE + 16UL * 8)

static NC g_nc; static NC_var g_var; static MPI_Offset g_shape[NDIMS], g_start[NDIMS], g_count[NDIMS];
static MPI_Offset g_off; static MPI_Datatype g_ft; static int g_isc;

int MPI_Type_commit(MPI_Datatype *t) { return MPI_SUCCESS; }
int MPI_Type_free(MPI_Datatype *t) { g_live--; *t = MPI_DATATYPE_NULL; return MPI_SUCCESS; }
int MPI_Type_create_hvector(int count, int bl, MPI_Aint stride, MPI_Datatype old, MPI_Datatype *newt)
{
    g_hv_calls++; g_hv_count = count; g_hv_bl = bl; g_hv_stride = stride; g_hv_old = old; g_live++;
    *newt = HANDLE(2); return MPI_SUCCESS;
}
MPI_Datatype ncmpii_nc2mpitype(nc_type xtype) { return MPI_BYTE; }
int ncmpio_first_offset(const NC *ncp, const NC_var *varp, const MPI_Offset start[], MPI_Offset *offset) { *offset = 0; return IN_first_err; }

int FT(is_request_contiguous)(int isRecVar, int numRecVars, int ndims, const MPI_Offset *shape, const MPI_Offset *start, const MPI_Offset *count)
__CPROVER_assigns()
__CPROVER_ensures(__CPROVER_return_value == IN_contig)
;
int FT(type_create_subarray64)(int ndims, const MPI_Offset *array_of_sizes, const MPI_Offset *array_of_subsizes, const MPI_Offset *array_of_starts,
                               int order, MPI_Datatype oldtype, MPI_Datatype *newtype)
__CPROVER_requires(ndims == NDIMS - 1 && array_of_sizes == g_shape + 1 && array_of_subsizes == g_count + 1 && array_of_starts == g_start + 1 && order == MPI_ORDER_C) /*@per_record_type_built_from_the_non_record_dimensions*/
__CPROVER_assigns(*newtype, g_live)
__CPROVER_ensures(__CPROVER_return_value == IN_sub_err)
__CPROVER_ensures(IMPLIES(__CPROVER_return_value == NC_NOERR, *newtype == HANDLE(1) && g_live == __CPROVER_old(g_live) + 1))
__CPROVER_ensures(IMPLIES(__CPROVER_return_value != NC_NOERR, g_live == __CPROVER_old(g_live)))
;

#define RET __CPROVER_return_value
int FT(filetype_create_vara)(const NC *ncp, const NC_var *varp, const MPI_Offset *start, const MPI_Offset *count,
                             MPI_Offset *offset_ptr, MPI_Datatype *filetype_ptr, int *is_filetype_contig)
__CPROVER_requires(ncp == &g_nc && varp == &g_var && start == g_start && count == g_count && offset_ptr == &g_off && filetype_ptr == &g_ft && is_filetype_contig == &g_isc)
__CPROVER_requires(g_live == 0 && g_hv_calls == 0)
__CPROVER_assigns(g_off, g_ft, g_isc, g_live, g_hv_calls, g_hv_count, g_hv_bl, g_hv_stride, g_hv_old)
__CPROVER_ensures(IMPLIES(RET != NC_NOERR, g_live == 0)) /*@C17_failed_filetype_construction_keeps_no_datatype*/
__CPROVER_ensures(IMPLIES(RET == NC_NOERR && IN_contig, g_live == 0 && g_ft == MPI_BYTE && g_isc == 1)) /*@contiguous_request_needs_no_datatype*/
__CPROVER_ensures(IMPLIES(RET == NC_NOERR && !IN_contig, g_live == 1 && IS_MODEL(g_ft) && g_isc == 0)) /*@C17_exactly_one_datatype_handed_back*/
__CPROVER_ensures(IMPLIES(RET == NC_NOERR && !IN_contig, g_off == IN_begin + IN_start0 * IN_recsize)) /*@C01_offset_of_the_first_record_addressed*/
__CPROVER_ensures(IMPLIES(RET == NC_NOERR && !IN_contig, g_hv_calls == 1 && g_hv_count == IN_count0 && g_hv_stride == IN_recsize)) /*@C01_one_per_record_type_for_each_record_one_record_size_apart*/
__CPROVER_ensures(IMPLIES(!IN_contig && IN_sub_err == NC_NOERR && IN_count0 <= NC_MAX_INT, RET == NC_NOERR)) /*@request_that_fits_the_mpi_arguments_gets_a_type*/
;

void harness(void)
{
    IN_start0 = nondet_ll(); IN_count0 = nondet_ll(); IN_recsize = RECSIZE;   /* enumerated: a symbolic record size makes start[0]*recsize a 64x64 multiplier against the spec's (no back end finishes) */ IN_begin = nondet_ll();
    IN_contig = nondet_bool(); IN_sub_err = nondet_int(); IN_first_err = nondet_int();
    __CPROVER_assume(IN_start0 >= 0 && IN_start0 < (1LL << 20) && IN_count0 >= 1 && IN_recsize >= 1 && IN_recsize < (1LL << 40) && IN_begin >= 0 && IN_begin < (1LL << 40));
    __CPROVER_assume(IN_sub_err <= 0 && IN_first_err <= 0);
    g_live = 0; g_hv_calls = 0; g_ft = MPI_DATATYPE_NULL;
    g_shape[0] = NC_UNLIMITED; g_start[0] = IN_start0; g_count[0] = IN_count0;
    for (int i = 1; i < NDIMS; i++) { g_shape[i] = 1LL << 33; g_start[i] = nondet_ll(); g_count[i] = nondet_ll(); }
    g_var.ndims = NDIMS; g_var.shape = g_shape; g_var.begin = IN_begin; g_var.xtype = NC_BYTE; g_var.xsz = 1;
    g_nc.recsize = IN_recsize; g_nc.vars.num_rec_vars = 2;
    int r = FT(filetype_create_vara)(&g_nc, &g_var, g_start, g_count, &g_off, &g_ft, &g_isc);
    CANARY(r == NC_NOERR && !IN_contig, "record_type_built");
    CANARY(r == NC_EINTOVERFLOW && IN_sub_err == NC_NOERR, "more_records_than_an_int_counts");
    CANARY(r != NC_NOERR && r == IN_sub_err, "per_record_type_failed");
    CANARY(r == NC_NOERR && IN_contig, "contiguous");
}
