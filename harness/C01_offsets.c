/* C01 / C15 / C18: file offset of a request's first and last element
 * (ncmpio_first_offset, ncmpio_last_offset in src/drivers/ncmpio/ncmpio_util.c) against the
 * mathematical element offset of the CDF layout, in 128-bit arithmetic. */
#include <config.h>
#include <stdlib.h>
#include <pnetcdf.h>
#include <dispatch.h>
#include <ncmpio_NC.h>
#include "vh.h"
#ifndef NDIMS
#define NDIMS 2
#endif
#ifndef ISREC
#define ISREC 0
#endif
#ifndef XSZ            /* element size: enumerated constant (multiplication by it is then linear) */
#define XSZ 4
#endif
#ifndef REC_MAX        /* bound on the record index of the request */
#define REC_MAX 3
#endif
#ifndef OUTER_MAX      /* bound on the lengths of all but the innermost dimension */
#define OUTER_MAX 1024
#endif
#ifndef INNER_MAX      /* bound on the innermost dimension length */
#define INNER_MAX 1024
#endif
typedef __int128 i128;
long long IN_start[4], IN_shape[4], IN_count[4], IN_begin, IN_recsize; int IN_xsz;

/* row-major linear index of idx[] within one record (record variable: dimensions 1..) or within the
 * whole variable (fixed-size variable: dimensions 0..) */
static inline i128 spec_linear(const MPI_Offset *shape, const MPI_Offset *idx, int first)
{
    i128 lin = 0;
    for (int i = 0; i < NDIMS; i++) if (i >= first) lin = lin * (i128)shape[i] + (i128)idx[i];
    return lin;
}
#define SPEC_OFFSET(ncp, varp, idx) \
    ((i128)(varp)->begin + (ISREC ? (i128)(idx)[0] * (i128)(ncp)->recsize : 0) + spec_linear((varp)->shape, (idx), ISREC ? 1 : 0) * (i128)(varp)->xsz)

/* well-formed variable of this instance: NDIMS dimensions, dsizes = right-to-left products */
#define WF_VAR(ncp, varp) ( \
    (varp)->ndims == NDIMS && (varp)->xsz == XSZ && \
    (varp)->begin >= 0 && (varp)->begin < ((long long)1 << 40) && (ncp)->recsize >= 0 && (ncp)->recsize < ((long long)1 << 40) && \
    (NDIMS < 1 || (ISREC ? (varp)->shape[0] == NC_UNLIMITED : ((varp)->shape[0] >= 1 && (varp)->shape[0] <= (NDIMS == 1 ? INNER_MAX : OUTER_MAX)))) && \
    (NDIMS < 2 || ((varp)->shape[1] >= 1 && (varp)->shape[1] <= (NDIMS == 2 ? INNER_MAX : OUTER_MAX))) && \
    (NDIMS < 3 || ((varp)->shape[2] >= 1 && (varp)->shape[2] <= (NDIMS == 3 ? INNER_MAX : OUTER_MAX))) && \
    (NDIMS < 1 || (varp)->dsizes[NDIMS-1] == (varp)->shape[NDIMS-1]) && \
    (NDIMS < 2 || NDIMS-2 < (ISREC ? 1 : 0) || (varp)->dsizes[NDIMS-2] == (varp)->shape[NDIMS-2] * (varp)->dsizes[NDIMS-1]) && \
    (NDIMS < 3 || NDIMS-3 < (ISREC ? 1 : 0) || (varp)->dsizes[NDIMS-3] == (varp)->shape[NDIMS-3] * (varp)->dsizes[NDIMS-2]))
#define IDX_OK(varp, idx) ( \
    (NDIMS < 1 || ((idx)[0] >= 0 && (ISREC ? (idx)[0] <= REC_MAX : (idx)[0] < (varp)->shape[0]))) && \
    (NDIMS < 2 || ((idx)[1] >= 0 && (idx)[1] < (varp)->shape[1])) && (NDIMS < 3 || ((idx)[2] >= 0 && (idx)[2] < (varp)->shape[2])))

int ncmpio_first_offset(const NC *ncp, const NC_var *varp, const MPI_Offset start[], MPI_Offset *offset)
__CPROVER_requires(__CPROVER_is_fresh(ncp, sizeof(NC)) && __CPROVER_is_fresh(varp, sizeof(NC_var)) && __CPROVER_is_fresh(offset, sizeof(MPI_Offset)))
__CPROVER_requires(NDIMS == 0 ? varp->shape == NULL : (__CPROVER_is_fresh(varp->shape, NDIMS * sizeof(MPI_Offset)) && __CPROVER_is_fresh(varp->dsizes, NDIMS * sizeof(MPI_Offset)) && __CPROVER_is_fresh(start, NDIMS * sizeof(MPI_Offset))))
__CPROVER_requires(WF_VAR(ncp, varp) && IDX_OK(varp, start))
__CPROVER_assigns(*offset)
__CPROVER_ensures(__CPROVER_return_value == NC_NOERR) /*@retcode*/
__CPROVER_ensures((i128)*offset == SPEC_OFFSET(ncp, varp, start)) /*@first_offset_is_element_offset*/
;

void harness(void)
{
    const NC *ncp; const NC_var *varp; const MPI_Offset *start; MPI_Offset *off;
    int r = ncmpio_first_offset(ncp, varp, start, off);
    CANARY(r == NC_NOERR, "noerr");
}
