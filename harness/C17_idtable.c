/* C17: the file-id table of src/dispatchers/file.c (real code, statics reached through
 * exported file-local symbols).  Contracts are on the prototypes below. */
#include <config.h>
#include <pnetcdf.h>
#include <dispatch.h>
#include "vh.h"
#undef FL
#define FL(file, sym) sym
/* tentative definitions of the two file-scope statics of file.c (completed by the real
 * definitions when the real source is #included at the end of this file) */
static PNC *pnc_filelist[NC_MAX_NFILES];
static int  pnc_numfiles;
#define filelist pnc_filelist
#define numfiles pnc_numfiles

/* ghost state (not touched by the code; frame clauses prove that) */
int G;            /* ghost slot: arbitrary, so facts about filelist[G] hold for every slot */
int W;            /* ghost witness of a free slot (exists whenever numfiles < NC_MAX_NFILES by the
                     representation invariant numfiles == number of non-NULL slots) */
PNC *old_G;       /* filelist[G] before the call */
int old_numfiles;
PNC *old_at_id;
int IN_ncid, IN_numfiles;
_Bool IN_slot_open;

static inline int in_range(int id) { return 0 <= id && id < NC_MAX_NFILES; }

/* ---- PNC_check_id -------------------------------------------------------- */
int PNC_check_id(int ncid, PNC **pncp)
__CPROVER_requires(__CPROVER_is_fresh(pncp, sizeof(*pncp)))
__CPROVER_requires(0 <= numfiles && numfiles <= NC_MAX_NFILES)
/* representation invariant, slot form: an occupied slot implies numfiles > 0 */
__CPROVER_requires(IMPLIES(in_range(ncid) && filelist[ncid] != NULL, numfiles > 0))
#ifdef ENFORCE_PNC_check_id
__CPROVER_requires(ncid == IN_ncid && numfiles == IN_numfiles && IMPLIES(in_range(ncid), (filelist[ncid] != NULL) == IN_slot_open)) /* tie */
#endif
__CPROVER_assigns(*pncp)
__CPROVER_ensures(__CPROVER_return_value == NC_NOERR || __CPROVER_return_value == NC_EBADID) /*@retcode*/
__CPROVER_ensures(IMPLIES(__CPROVER_return_value == NC_NOERR, in_range(ncid) && *pncp != NULL && *pncp == filelist[ncid])) /*@valid_id_gives_open_file*/
__CPROVER_ensures(IMPLIES(!in_range(ncid) || filelist[ncid] == NULL, __CPROVER_return_value == NC_EBADID)) /*@not_open_gives_EBADID*/
__CPROVER_ensures(IMPLIES(in_range(ncid) && filelist[ncid] != NULL, __CPROVER_return_value == NC_NOERR)) /*@open_id_accepted*/
;

/* ---- new_id_PNCList ------------------------------------------------------- */
static int FL(file, new_id_PNCList)(int *new_id, PNC *pncp)
__CPROVER_requires(__CPROVER_is_fresh(new_id, sizeof(int)))
__CPROVER_requires(pncp != NULL)
__CPROVER_requires(0 <= numfiles && numfiles <= NC_MAX_NFILES)
__CPROVER_requires(IMPLIES(numfiles < NC_MAX_NFILES, in_range(W) && filelist[W] == NULL))
__CPROVER_requires(in_range(G) && old_G == filelist[G] && old_numfiles == numfiles)
__CPROVER_assigns(*new_id, numfiles, __CPROVER_object_whole(filelist))
__CPROVER_ensures(IFF(__CPROVER_return_value == NC_ENFILE, old_numfiles == NC_MAX_NFILES)) /*@ENFILE_iff_full*/
__CPROVER_ensures(__CPROVER_return_value == NC_NOERR || __CPROVER_return_value == NC_ENFILE) /*@retcode*/
__CPROVER_ensures(IMPLIES(__CPROVER_return_value == NC_NOERR, in_range(*new_id) && filelist[*new_id] == pncp && numfiles == old_numfiles + 1)) /*@id_registered*/
__CPROVER_ensures(IMPLIES(__CPROVER_return_value == NC_NOERR && G == *new_id, old_G == NULL)) /*@id_was_free*/
__CPROVER_ensures(IMPLIES(__CPROVER_return_value == NC_NOERR && G < *new_id, old_G != NULL)) /*@first_free_slot*/
__CPROVER_ensures(IMPLIES(__CPROVER_return_value != NC_NOERR || G != *new_id, filelist[G] == old_G)) /*@other_ids_untouched*/
__CPROVER_ensures(IMPLIES(__CPROVER_return_value != NC_NOERR, numfiles == old_numfiles && *new_id == -1)) /*@failure_changes_nothing*/
;

/* ---- del_from_PNCList ----------------------------------------------------- */
static int FL(file, del_from_PNCList)(int ncid)
__CPROVER_requires(in_range(ncid) && filelist[ncid] != NULL)      /* "validity of ncid should have been checked already" */
__CPROVER_requires(0 < numfiles && numfiles <= NC_MAX_NFILES)
__CPROVER_requires(in_range(G) && old_G == filelist[G] && old_numfiles == numfiles)
__CPROVER_assigns(numfiles, filelist[ncid])
__CPROVER_ensures(__CPROVER_return_value == 0) /*@retcode*/
__CPROVER_ensures(filelist[ncid] == NULL && numfiles == old_numfiles - 1) /*@id_released*/
__CPROVER_ensures(IMPLIES(G != ncid, filelist[G] == old_G)) /*@other_ids_untouched*/
;

/* the real src/dispatchers/file.c: #included (not linked) so that its file-scope statics are
 * the objects the contracts above talk about */
#include TU_file_c

#ifdef H_check_id
void harness(void)
{
    IN_ncid = nondet_int(); IN_numfiles = nondet_int(); IN_slot_open = nondet_bool();
    PNC **pp; int id = nondet_int();
    int r = PNC_check_id(id, pp);
    CANARY(r == NC_NOERR, "noerr");
    CANARY(r == NC_EBADID, "ebadid");
    CANARY(r == NC_EBADID && 0 <= id && id < NC_MAX_NFILES && numfiles > 0, "stale_in_range");
}
#endif
#ifdef H_new_id
void harness(void)
{
    G = nondet_int(); W = nondet_int();
    int *nid; PNC *p = nondet_ptr();
    int r = FL(file, new_id_PNCList)(nid, p);
    CANARY(r == NC_NOERR, "noerr");
    CANARY(r == NC_ENFILE, "enfile");
}
#endif
#ifdef H_del_id
void harness(void)
{
    G = nondet_int();
    int id = nondet_int();
    int r = FL(file, del_from_PNCList)(id);
    CANARY(r == 0, "ok");
}
#endif
