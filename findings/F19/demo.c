/* wait_all with one pending put and one pending get: the write fails (file size limit), the read
 * succeeds; the wait must report the write failure (C11). */
#include <stdio.h>
#include <stdlib.h>
#include <signal.h>
#include <sys/resource.h>
#include <mpi.h>
#include <pnetcdf.h>
#define CHK(e) do { if ((e) != NC_NOERR) { printf("line %d: %s\n", __LINE__, ncmpi_strerror(e)); return 2; } } while (0)
int main(int argc, char **argv)
{
    int ncid, dimid, v1, v2, err, req[2], st[2], i; static int wbuf[65536], rbuf[4];
    MPI_Offset start[1], count[1];
    MPI_Init(&argc, &argv);
    err = ncmpi_create(MPI_COMM_WORLD, argv[1], NC_CLOBBER, MPI_INFO_NULL, &ncid); CHK(err);
    err = ncmpi_def_dim(ncid, "x", 65536, &dimid); CHK(err);
    err = ncmpi_def_var(ncid, "small", NC_INT, 1, &dimid, &v1); CHK(err);
    err = ncmpi_def_var(ncid, "big", NC_INT, 1, &dimid, &v2); CHK(err);
    err = ncmpi_enddef(ncid); CHK(err);
    for (i = 0; i < 65536; i++) wbuf[i] = i;
    start[0] = 0; count[0] = 4;
    err = ncmpi_put_vara_int_all(ncid, v1, start, count, wbuf); CHK(err);
    /* from now on the file cannot grow beyond 4 KiB: the write of "big" fails, the read of "small" works */
    signal(SIGXFSZ, SIG_IGN);
    struct rlimit rl = { 4096, 4096 }; setrlimit(RLIMIT_FSIZE, &rl);
    count[0] = 65536;
    err = ncmpi_iput_vara_int(ncid, v2, start, count, wbuf, &req[0]); CHK(err);
    count[0] = 4;
    err = ncmpi_iget_vara_int(ncid, v1, start, count, rbuf, &req[1]); CHK(err);
    err = ncmpi_wait_all(ncid, 2, req, st);
    printf("wait_all returned %d (%s); statuses %d %d\n", err, ncmpi_strerror(err), st[0], st[1]);
    int lost = (err == NC_NOERR && st[0] == NC_NOERR);
    /* control: the same put alone */
    count[0] = 65536;
    int e2 = ncmpi_iput_vara_int(ncid, v2, start, count, wbuf, &req[0]); CHK(e2);
    e2 = ncmpi_wait_all(ncid, 1, req, st);
    printf("control (put alone): wait_all returned %d (%s)\n", e2, ncmpi_strerror(e2));
    ncmpi_close(ncid);
    MPI_Finalize();
    if (e2 == NC_NOERR) { printf("control did not fail: demonstration inconclusive\n"); return 3; }
    if (lost) { printf("WRITE FAILURE LOST\n"); return 1; }
    printf("write failure reported\n"); return 0;
}
