/* Fault injection at the MPI-IO boundary (PMPI interposition, real library code): the second header
 * read of ncmpi_open fails with MPI_ERR_IO.  The open must return an error (C11) - for every position
 * of the chunk boundary inside the header, here varied through the length of a global attribute. */
#include <stdio.h>
#include <stdlib.h>
#include <string.h>
#include <mpi.h>
#include <pnetcdf.h>
static int fail_at = -1, nreads = 0, injected = 0;
static int maybe_fail(void) { nreads++; if (nreads == fail_at) { injected = 1; return 1; } return 0; }
int MPI_File_read_at(MPI_File fh, MPI_Offset off, void *buf, int count, MPI_Datatype t, MPI_Status *st)
{ /* on the injected failure the buffer content is undefined by MPI; here it happens to hold the file content one word further on */
  int f = maybe_fail(); int r = PMPI_File_read_at(fh, off + (f ? 4 : 0), buf, count, t, st); return f ? MPI_ERR_IO : r; }
int MPI_File_read_at_all(MPI_File fh, MPI_Offset off, void *buf, int count, MPI_Datatype t, MPI_Status *st)
{ int f = maybe_fail(); int r = PMPI_File_read_at_all(fh, off + (f ? 4 : 0), buf, count, t, st); return f ? MPI_ERR_IO : r; }
#define CHK(e) do { if ((e) != NC_NOERR) { printf("line %d: %s\n", __LINE__, ncmpi_strerror(e)); return 2; } } while (0)
#define NV 4000
int main(int argc, char **argv)
{
    int ncid, dimid[3], v, err, pad, lost = 0, tried = 0; char name[64], att[512];
    MPI_Init(&argc, &argv);
    for (pad = 1; pad <= 120 && !lost; pad++) {
        fail_at = -1;
        err = ncmpi_create(MPI_COMM_WORLD, argv[1], NC_CLOBBER, MPI_INFO_NULL, &ncid); CHK(err);
        memset(att, 'a', pad); err = ncmpi_put_att_text(ncid, NC_GLOBAL, "pad", pad, att); CHK(err);
        err = ncmpi_def_dim(ncid, "x", 2, &dimid[0]); CHK(err); err = ncmpi_def_dim(ncid, "y", 2, &dimid[1]); CHK(err); err = ncmpi_def_dim(ncid, "z", 2, &dimid[2]); CHK(err);
        for (v = 0; v < NV; v++) { int id; sprintf(name, "variable_with_a_long_name_%06d", v); err = ncmpi_def_var(ncid, name, NC_INT, 3, dimid, &id); CHK(err); }
        err = ncmpi_enddef(ncid); CHK(err); err = ncmpi_close(ncid); CHK(err);
        nreads = 0; injected = 0; fail_at = 2;
        err = ncmpi_open(MPI_COMM_WORLD, argv[1], NC_NOWRITE, MPI_INFO_NULL, &ncid);
        tried++;
        if (injected && err == NC_NOERR) {
            int nd = -1, ids[8] = {-1,-1,-1}; lost = 1;
            printf("pad %d: second header read failed with MPI_ERR_IO, ncmpi_open returned NC_NOERR\n", pad);
            for (v = 0; v < NV; v++) { ncmpi_inq_varndims(ncid, v, &nd); ncmpi_inq_vardimid(ncid, v, ids); if (ids[0] != 0 || ids[1] != 1 || ids[2] != 2) { printf("  variable %d has dimension ids %d %d %d (uninitialised memory)\n", v, ids[0], ids[1], ids[2]); break; } }
        }
        if (err == NC_NOERR) ncmpi_close(ncid);
        else if (pad == 1) printf("pad %d: open returned %s (injected=%d)\n", pad, ncmpi_strerror(err), injected);
    }
    MPI_Finalize();
    if (lost) { printf("READ FAILURE LOST\n"); return 1; }
    printf("read failure reported for all %d boundary positions\n", tried); return 0;
}
