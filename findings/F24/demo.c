/* ncmpi_abort of a newly created file on 2 processes; the removal of the file fails on the root
 * (PMPI interposition: MPI_File_delete returns MPI_ERR_IO).  The failure must be returned and must not
 * leave the other process blocked (C11/C08): run under a time limit. */
#include <stdio.h>
#include <stdlib.h>
#include <mpi.h>
#include <pnetcdf.h>
int MPI_File_delete(const char *filename, MPI_Info info) { PMPI_File_delete(filename, info); return MPI_ERR_IO; }
int main(int argc, char **argv)
{
    int ncid, err, rank;
    MPI_Init(&argc, &argv); MPI_Comm_rank(MPI_COMM_WORLD, &rank);
    err = ncmpi_create(MPI_COMM_WORLD, argv[1], NC_CLOBBER, MPI_INFO_NULL, &ncid);
    if (err != NC_NOERR) { printf("create: %s\n", ncmpi_strerror(err)); MPI_Abort(MPI_COMM_WORLD, 2); }
    err = ncmpi_abort(ncid);
    printf("rank %d: ncmpi_abort returned %d (%s)\n", rank, err, ncmpi_strerror(err)); fflush(stdout);
    MPI_Barrier(MPI_COMM_WORLD);      /* both processes get here only if neither is stuck inside abort */
    if (rank == 0) printf("both processes left ncmpi_abort\n");
    MPI_Finalize();
    return 0;
}
