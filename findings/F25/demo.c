/* ncmpi_redef from independent data mode synchronises (writes) the record count; that write fails
 * (PMPI interposition).  ncmpi_redef must return an error (C11). */
#include <stdio.h>
#include <stdlib.h>
#include <mpi.h>
#include <pnetcdf.h>
static int fail_writes = 0, failed = 0;
int MPI_File_write_at(MPI_File fh, MPI_Offset off, const void *buf, int count, MPI_Datatype t, MPI_Status *st)
{ if (fail_writes) { failed++; return MPI_ERR_IO; } return PMPI_File_write_at(fh, off, buf, count, t, st); }
#define CHK(e) do { if ((e) != NC_NOERR) { printf("line %d: %s\n", __LINE__, ncmpi_strerror(e)); return 2; } } while (0)
int main(int argc, char **argv)
{
    int ncid, dimid, v, err, a = 5; MPI_Offset idx[1] = { 3 };
    MPI_Init(&argc, &argv);
    err = ncmpi_create(MPI_COMM_WORLD, argv[1], NC_CLOBBER, MPI_INFO_NULL, &ncid); CHK(err);
    err = ncmpi_def_dim(ncid, "t", NC_UNLIMITED, &dimid); CHK(err);
    err = ncmpi_def_var(ncid, "v", NC_INT, 1, &dimid, &v); CHK(err);
    err = ncmpi_enddef(ncid); CHK(err);
    err = ncmpi_begin_indep_data(ncid); CHK(err);
    err = ncmpi_put_var1_int(ncid, v, idx, &a); CHK(err);      /* 4 records now, record count not yet in the file */
    fail_writes = 1;
    err = ncmpi_redef(ncid);
    fail_writes = 0;
    printf("ncmpi_redef returned %d (%s); %d write(s) failed underneath\n", err, ncmpi_strerror(err), failed);
    int lost = (failed > 0 && err == NC_NOERR);
    if (err == NC_NOERR) ncmpi_enddef(ncid);
    ncmpi_close(ncid);
    MPI_Finalize();
    if (failed == 0) { printf("no write was attempted: inconclusive\n"); return 3; }
    if (lost) { printf("WRITE FAILURE LOST\n"); return 1; }
    printf("write failure reported\n"); return 0;
}
