/* C17: a failing ncmpi_create / ncmpi_open must not keep an MPI file handle.  PMPI interposition counts
 * MPI_File_open / MPI_File_close and makes MPI_File_get_info fail. */
#include <stdio.h>
#include <stdlib.h>
#include <mpi.h>
#include <pnetcdf.h>
static int opened = 0, closed = 0, fail_info = 0;
int MPI_File_open(MPI_Comm c, const char *f, int m, MPI_Info i, MPI_File *fh) { int r = PMPI_File_open(c, f, m, i, fh); if (r == MPI_SUCCESS) opened++; return r; }
int MPI_File_close(MPI_File *fh) { closed++; return PMPI_File_close(fh); }
int MPI_File_get_info(MPI_File fh, MPI_Info *info) { if (fail_info) return MPI_ERR_OTHER; return PMPI_File_get_info(fh, info); }
int main(int argc, char **argv)
{
    int ncid, err, bad = 0;
    MPI_Init(&argc, &argv);
    err = ncmpi_create(MPI_COMM_WORLD, argv[1], NC_CLOBBER, MPI_INFO_NULL, &ncid);
    if (err != NC_NOERR) { printf("create: %s\n", ncmpi_strerror(err)); return 2; }
    ncmpi_close(ncid);
    opened = closed = 0; fail_info = 1;
    err = ncmpi_open(MPI_COMM_WORLD, argv[1], NC_NOWRITE, MPI_INFO_NULL, &ncid);
    printf("failing open   returned %d; MPI file handles opened %d, closed %d\n", err, opened, closed);
    if (err == NC_NOERR || opened != closed) bad = 1;
    opened = closed = 0;
    err = ncmpi_create(MPI_COMM_WORLD, argv[1], NC_CLOBBER, MPI_INFO_NULL, &ncid);
    printf("failing create returned %d; MPI file handles opened %d, closed %d\n", err, opened, closed);
    if (err == NC_NOERR || opened != closed) bad = 1;
    MPI_Finalize();
    if (bad) { printf("FILE HANDLE LEFT OPEN\n"); return 1; }
    printf("no file handle kept\n"); return 0;
}
