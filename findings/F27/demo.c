/* F27 (C17): type_create_subarray64 returns NC_EINTOVERFLOW from inside its loop over the slower
 * dimensions without freeing the hvector type it has already built and committed.
 * Needs: CDF-5, a fixed-size variable with >= 3 dimensions one of which is longer than 2^31-1, and a
 * non-contiguous request whose count in a dimension other than the last two exceeds 2^31-1.
 * The PMPI interposer counts derived datatypes created by hvector/hindexed/resized and freed.
 * exit 0: every datatype created during the failing call was freed; exit 1: leak. */
#include <stdio.h>
#include <stdlib.h>
#include <sys/mman.h>
#include <mpi.h>
#include <pnetcdf.h>
static int live;
int MPI_Type_create_hvector(int c, int b, MPI_Aint s, MPI_Datatype o, MPI_Datatype *n) { int r = PMPI_Type_create_hvector(c, b, s, o, n); if (r == MPI_SUCCESS) live++; return r; }
int MPI_Type_create_hindexed(int c, const int b[], const MPI_Aint d[], MPI_Datatype o, MPI_Datatype *n) { int r = PMPI_Type_create_hindexed(c, b, d, o, n); if (r == MPI_SUCCESS) live++; return r; }
int MPI_Type_create_resized(MPI_Datatype o, MPI_Aint lb, MPI_Aint e, MPI_Datatype *n) { int r = PMPI_Type_create_resized(o, lb, e, n); if (r == MPI_SUCCESS) live++; return r; }
int MPI_Type_free(MPI_Datatype *t) { live--; return PMPI_Type_free(t); }
#define CHK(e) do { int _e = (e); if (_e != NC_NOERR) { printf("line %d: %s\n", __LINE__, ncmpi_strerror(_e)); MPI_Abort(MPI_COMM_WORLD, 2); } } while (0)
int main(int argc, char **argv)
{
    int ncid, dimid[3], varid, err;
    MPI_Init(&argc, &argv);
    CHK(ncmpi_create(MPI_COMM_WORLD, argv[1], NC_CLOBBER | NC_64BIT_DATA, MPI_INFO_NULL, &ncid));
    CHK(ncmpi_def_dim(ncid, "z", ((MPI_Offset)1 << 31) + 5, &dimid[0]));
    CHK(ncmpi_def_dim(ncid, "y", 2, &dimid[1]));
    CHK(ncmpi_def_dim(ncid, "x", 2, &dimid[2]));
    CHK(ncmpi_def_var(ncid, "v", NC_BYTE, 3, dimid, &varid));
    CHK(ncmpi_set_fill(ncid, NC_NOFILL, NULL));
    CHK(ncmpi_enddef(ncid));
    MPI_Offset start[3] = {0, 0, 0}, count[3] = {((MPI_Offset)1 << 31) + 1, 2, 1};
    size_t n = (size_t)count[0] * 2;
    signed char *buf = mmap(NULL, n, PROT_READ, MAP_PRIVATE | MAP_ANONYMOUS | MAP_NORESERVE, -1, 0);   /* never touched */
    if (buf == MAP_FAILED) { perror("mmap"); return 2; }
    int before = live;
    err = ncmpi_put_vara_schar_all(ncid, varid, start, count, buf);
    int leaked = live - before;
    printf("put_vara returned %d (%s); derived datatypes created and not freed by the call: %d\n", err, ncmpi_strerror(err), leaked);
    ncmpi_close(ncid);
    MPI_Finalize();
    return (err == NC_EINTOVERFLOW && leaked == 0) ? 0 : 1;
}
