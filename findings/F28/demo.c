/* F28 (C17): filetype_create_vara returns NC_EINTOVERFLOW for count[0] > 2^31-1 on a record variable
 * without freeing the per-record subarray type it has already built and committed.
 * Needs: CDF-5, a record variable with >= 2 dimensions and a non-contiguous request for more than
 * 2^31-1 records.
 * The PMPI interposer counts derived datatypes created by hvector/hindexed/resized and freed.
 * exit 0: every datatype created during the failing call was freed; exit 1: leak. */
#include <stdio.h>
#include <stdlib.h>
#include <sys/mman.h>
#include <mpi.h>
#include <pnetcdf.h>
static int live;
int MPI_Type_create_hvector(int c, int b, MPI_Aint s, MPI_Datatype o, MPI_Datatype *n) { int r = PMPI_Type_create_hvector(c, b, s, o, n); if (r == MPI_SUCCESS) live++; return r; }
int MPI_Type_create_hindexed(int c, const int b[], const MPI_Aint d[], MPI_Datatype o, MPI_Datatype *n) { int r = PMPI_Type_create_hindexed(c, b, d, o, n); if (r == MPI_SUCCESS) live++; return r; }
int MPI_Type_create_resized(MPI_Datatype o, MPI_Aint lb, MPI_Aint e, MPI_Datatype *n) { int r = PMPI_Type_create_resized(o, lb, e, n); if (r == MPI_SUCCESS) live++; return r; }
int MPI_Type_create_subarray(int nd, const int a[], const int b[], const int c[], int o, MPI_Datatype old, MPI_Datatype *n) { int r = PMPI_Type_create_subarray(nd, a, b, c, o, old, n); if (r == MPI_SUCCESS) live++; return r; }
int MPI_Type_free(MPI_Datatype *t) { live--; return PMPI_Type_free(t); }
#define CHK(e) do { int _e = (e); if (_e != NC_NOERR) { printf("line %d: %s\n", __LINE__, ncmpi_strerror(_e)); MPI_Abort(MPI_COMM_WORLD, 2); } } while (0)
int main(int argc, char **argv)
{
    int ncid, dimid[3], varid, err;
    MPI_Init(&argc, &argv);
    CHK(ncmpi_create(MPI_COMM_WORLD, argv[1], NC_CLOBBER | NC_64BIT_DATA, MPI_INFO_NULL, &ncid));
    CHK(ncmpi_def_dim(ncid, "t", NC_UNLIMITED, &dimid[0]));
    CHK(ncmpi_def_dim(ncid, "x", 4, &dimid[1]));
    CHK(ncmpi_def_var(ncid, "v", NC_BYTE, 2, dimid, &varid));
    CHK(ncmpi_set_fill(ncid, NC_NOFILL, NULL));
    CHK(ncmpi_enddef(ncid));
    MPI_Offset start[2] = {0, 1}, count[2] = {((MPI_Offset)1 << 31) + 1, 2};
    size_t n = (size_t)count[0] * 2;
    signed char *buf = mmap(NULL, n, PROT_READ, MAP_PRIVATE | MAP_ANONYMOUS | MAP_NORESERVE, -1, 0);   /* never touched */
    if (buf == MAP_FAILED) { perror("mmap"); return 2; }
    int before = live;
    err = ncmpi_put_vara_schar_all(ncid, varid, start, count, buf);
    int leaked = live - before;
    printf("put_vara returned %d (%s); derived datatypes created and not freed by the call: %d\n", err, ncmpi_strerror(err), leaked);
    ncmpi_close(ncid);
    MPI_Finalize();
    return (err == NC_EINTOVERFLOW && leaked == 0) ? 0 : 1;
}
