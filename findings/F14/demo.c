/* C17: with the documented maximum number of files open, further ncmpi_create / ncmpi_open calls fail
 * with NC_ENFILE - and must not keep memory.  20000 failing calls of each; heap in use (mallinfo2) before
 * and after. */
#include <stdio.h>
#include <stdlib.h>
#include <malloc.h>
#include <mpi.h>
#include <pnetcdf.h>
#define NFAIL 20000
int main(int argc, char **argv)
{
    static int ids[NC_MAX_NFILES]; int i, err, id, n = 0; char name[256];
    MPI_Init(&argc, &argv);
    sprintf(name, "%s/valid.nc", argv[1]);
    err = ncmpi_create(MPI_COMM_WORLD, name, NC_CLOBBER, MPI_INFO_NULL, &id); if (err == NC_NOERR) { ncmpi_enddef(id); ncmpi_close(id); }
    for (i = 0; i < NC_MAX_NFILES; i++) {
        sprintf(name, "%s/f%04d.nc", argv[1], i);
        err = ncmpi_create(MPI_COMM_WORLD, name, NC_CLOBBER, MPI_INFO_NULL, &ids[i]);
        if (err != NC_NOERR) { printf("create %d: %s\n", i, ncmpi_strerror(err)); break; }
        n++;
    }
    printf("%d files open\n", n);
    sprintf(name, "%s/extra.nc", argv[1]);
    err = ncmpi_create(MPI_COMM_WORLD, name, NC_CLOBBER, MPI_INFO_NULL, &id);
    printf("one more create returns %d (%s)\n", err, ncmpi_strerror(err));
    size_t before = mallinfo2().uordblks;
    for (i = 0; i < NFAIL; i++) ncmpi_create(MPI_COMM_WORLD, name, NC_CLOBBER, MPI_INFO_NULL, &id);
    size_t mid = mallinfo2().uordblks;
    sprintf(name, "%s/valid.nc", argv[1]);
    for (i = 0; i < NFAIL; i++) ncmpi_open(MPI_COMM_WORLD, name, NC_NOWRITE, MPI_INFO_NULL, &id);
    size_t after = mallinfo2().uordblks;
    printf("heap in use grew by %ld bytes over %d failing creates, by %ld bytes over %d failing opens\n", (long)(mid - before), NFAIL, (long)(after - mid), NFAIL);
    for (i = 0; i < n; i++) ncmpi_close(ids[i]);
    MPI_Finalize();
    if (err != NC_ENFILE) { printf("inconclusive\n"); return 3; }
    if ((long)(mid - before) > NFAIL * 8L || (long)(after - mid) > NFAIL * 8L) { printf("MEMORY KEPT BY FAILING CALLS\n"); return 1; }
    printf("no memory kept\n"); return 0;
}
