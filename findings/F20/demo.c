/* Two pending puts to a record variable; the wait names only the second one (record 5).
 * After that wait the file must have 6 records (C05). */
#include <stdio.h>
#include <stdlib.h>
#include <mpi.h>
#include <pnetcdf.h>
#define CHK(e) do { if ((e) != NC_NOERR) { printf("line %d: %s\n", __LINE__, ncmpi_strerror(e)); return 2; } } while (0)
int main(int argc, char **argv)
{
    int ncid, dimid[2], v, err, req[2], st[1], a[2] = {1, 2}, b[2] = {3, 4};
    MPI_Offset start[2], count[2], nrec = -1;
    MPI_Init(&argc, &argv);
    err = ncmpi_create(MPI_COMM_WORLD, argv[1], NC_CLOBBER, MPI_INFO_NULL, &ncid); CHK(err);
    err = ncmpi_def_dim(ncid, "t", NC_UNLIMITED, &dimid[0]); CHK(err);
    err = ncmpi_def_dim(ncid, "x", 2, &dimid[1]); CHK(err);
    err = ncmpi_def_var(ncid, "v", NC_INT, 2, dimid, &v); CHK(err);
    err = ncmpi_enddef(ncid); CHK(err);
    start[1] = 0; count[0] = 1; count[1] = 2;
    start[0] = 0; err = ncmpi_iput_vara_int(ncid, v, start, count, a, &req[0]); CHK(err);
    start[0] = 5; err = ncmpi_iput_vara_int(ncid, v, start, count, b, &req[1]); CHK(err);
    err = ncmpi_wait_all(ncid, 1, &req[1], st); CHK(err); CHK(st[0]);
    err = ncmpi_inq_dimlen(ncid, dimid[0], &nrec); CHK(err);
    printf("records after waiting for the put to record 5: %lld\n", (long long)nrec);
    int bad = (nrec != 6);
    err = ncmpi_wait_all(ncid, 1, &req[0], st); CHK(err);
    err = ncmpi_close(ncid); CHK(err);
    /* what a reader sees */
    err = ncmpi_open(MPI_COMM_WORLD, argv[1], NC_NOWRITE, MPI_INFO_NULL, &ncid); CHK(err);
    err = ncmpi_inq_dimlen(ncid, dimid[0], &nrec); CHK(err);
    printf("records in the closed file: %lld\n", (long long)nrec);
    if (nrec != 6) bad = 1;
    else { int r[2] = {0, 0}; start[0] = 5; err = ncmpi_get_vara_int_all(ncid, v, start, count, r); CHK(err); printf("record 5 = %d %d\n", r[0], r[1]); if (r[0] != 3 || r[1] != 4) bad = 1; }
    ncmpi_close(ncid);
    MPI_Finalize();
    if (bad) { printf("RECORD COUNT NOT UPDATED\n"); return 1; }
    printf("ok\n"); return 0;
}
