/* C02: "every completed request reports its own status"; "requests not named in a wait stay pending".
 * (a) two pending gets, one of which hits NC_ERANGE; the wait names them in the reverse of the queue order.
 * (b) two pending puts; the wait names one of them and NC_REQ_NULL. */
#include <stdio.h>
#include <stdlib.h>
#include <mpi.h>
#include <pnetcdf.h>
#define CHK(e) do { if ((e) != NC_NOERR) { printf("line %d: %s\n", __LINE__, ncmpi_strerror(e)); return 2; } } while (0)
int main(int argc, char **argv)
{
    int ncid, dimid, vd, vi, err, req[2], st[2], bad = 0, nreqs = -1; MPI_Offset idx[1]; double d[2] = { 1e10, 1.0 }; int got[2] = { 0, 0 }, a = 7, b = 8;
    MPI_Init(&argc, &argv);
    err = ncmpi_create(MPI_COMM_WORLD, argv[1], NC_CLOBBER, MPI_INFO_NULL, &ncid); CHK(err);
    err = ncmpi_def_dim(ncid, "x", 2, &dimid); CHK(err);
    err = ncmpi_def_var(ncid, "d", NC_DOUBLE, 1, &dimid, &vd); CHK(err);
    err = ncmpi_def_var(ncid, "i", NC_INT, 1, &dimid, &vi); CHK(err);
    err = ncmpi_enddef(ncid); CHK(err);
    err = ncmpi_put_var_double_all(ncid, vd, d); CHK(err);
    /* (a) */
    idx[0] = 0; err = ncmpi_iget_var1_int(ncid, vd, idx, &got[0], &req[0]); CHK(err);   /* 1e10 does not fit an int: NC_ERANGE */
    idx[0] = 1; err = ncmpi_iget_var1_int(ncid, vd, idx, &got[1], &req[1]); CHK(err);   /* 1.0 fits */
    { int ids[2] = { req[1], req[0] };
      err = ncmpi_wait_all(ncid, 2, ids, st);
      printf("(a) wait_all({fits, overflows}) returned %d, statuses { %d, %d }  expected { 0, %d }\n", err, st[0], st[1], NC_ERANGE);
      if (st[0] != NC_NOERR || st[1] != NC_ERANGE) bad = 1; }
    /* (b) */
    idx[0] = 0; err = ncmpi_iput_var1_int(ncid, vi, idx, &a, &req[0]); CHK(err);
    idx[0] = 1; err = ncmpi_iput_var1_int(ncid, vi, idx, &b, &req[1]); CHK(err);
    { int ids[2] = { req[0], NC_REQ_NULL };
      err = ncmpi_wait_all(ncid, 2, ids, st); CHK(err);
      err = ncmpi_inq_nreqs(ncid, &nreqs); CHK(err);
      printf("(b) after waiting for { first, NC_REQ_NULL }: %d request(s) pending, expected 1\n", nreqs);
      if (nreqs != 1) bad = 1;
      if (nreqs == 1) { err = ncmpi_cancel(ncid, 1, &req[1], st); CHK(err); } }
    /* (c) a wait that names a pending put and an id that does not exist: the valid request must stay usable */
    idx[0] = 0; err = ncmpi_iput_var1_int(ncid, vi, idx, &a, &req[0]); CHK(err);
    idx[0] = 1; err = ncmpi_iput_var1_int(ncid, vi, idx, &b, &req[1]); CHK(err);
    { int ids[2] = { req[0], 9998 }, e1, e2;
      e1 = ncmpi_wait_all(ncid, 2, ids, st);
      printf("(c) wait_all({valid, unknown id}) returned %d, statuses { %d, %d }\n", e1, st[0], st[1]);
      ids[0] = req[0]; e2 = ncmpi_wait_all(ncid, 1, ids, st);
      err = ncmpi_inq_nreqs(ncid, &nreqs); CHK(err);
      printf("    waiting for the valid request alone afterwards returned %d (status %d); %d request(s) pending, expected 1\n", e2, st[0], nreqs);
      if (e1 != NC_EINVAL_REQUEST || e2 != NC_NOERR || nreqs != 1) bad = 1;
      ncmpi_cancel(ncid, NC_REQ_ALL, NULL, NULL); }
    err = ncmpi_close(ncid); CHK(err);
    MPI_Finalize();
    if (bad) { printf("FAIL\n"); return 1; }
    printf("PASS\n"); return 0;
}
