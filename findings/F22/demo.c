/* enddef fills a new fill-mode variable; the fill write fails (file size limit).  enddef must report it (C11). */
#include <stdio.h>
#include <stdlib.h>
#include <signal.h>
#include <sys/resource.h>
#include <mpi.h>
#include <pnetcdf.h>
#define CHK(e) do { if ((e) != NC_NOERR) { printf("line %d: %s\n", __LINE__, ncmpi_strerror(e)); return 2; } } while (0)
int main(int argc, char **argv)
{
    int ncid, dimid, v, err, old; MPI_Offset start[1] = {0}, count[1] = {4}; int r[4];
    MPI_Init(&argc, &argv);
    err = ncmpi_create(MPI_COMM_WORLD, argv[1], NC_CLOBBER, MPI_INFO_NULL, &ncid); CHK(err);
    err = ncmpi_set_fill(ncid, NC_FILL, &old); CHK(err);
    err = ncmpi_def_dim(ncid, "x", 1 << 20, &dimid); CHK(err);
    err = ncmpi_def_var(ncid, "big", NC_INT, 1, &dimid, &v); CHK(err);
    signal(SIGXFSZ, SIG_IGN);
    struct rlimit rl = { 65536, 65536 }; setrlimit(RLIMIT_FSIZE, &rl);   /* header fits, the 4 MiB of fill values do not */
    err = ncmpi_enddef(ncid);
    printf("enddef returned %d (%s)\n", err, ncmpi_strerror(err));
    int lost = (err == NC_NOERR);
    ncmpi_close(ncid);
    MPI_Finalize();
    if (lost) { printf("FILL WRITE FAILURE LOST\n"); return 1; }
    printf("fill write failure reported\n"); return 0;
}
