/* libc functions that CBMC does not model and the anchored code calls (trusted base). */
#include <stddef.h>
unsigned char nondet_uchar(void);
int nondet_int(void);
/* sprintf: writes an arbitrary NUL-terminated string of at most 23 characters (callers print a
 * 64-bit number into a buffer of MPI_MAX_INFO_VAL bytes) */
int pnc_verif_sprintf(char *str, const char *fmt, long long v)
{
    int n = nondet_int();
    __CPROVER_assume(n >= 0 && n <= 23);
    for (int i = 0; i < 23; i++) if (i < n) str[i] = (char)nondet_uchar();
    str[n] = 0;
    return n;
}
