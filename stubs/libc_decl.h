/* force-included (-include) when compiling a real TU whose sprintf calls must be given a
 * fixed-arity model: DFCC cannot instrument variadic bodies.  Every sprintf in the TUs this is
 * used for has the shape sprintf(buf, "%lld" | "%d", one integer). */
int pnc_verif_sprintf(char *str, const char *fmt, long long v);
#define sprintf pnc_verif_sprintf
