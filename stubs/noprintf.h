/* force-included for utility TUs: diagnostic printing is a no-op for the verifier (DESIGN 1.1 e) */
#include <stdio.h>
#define printf(...) ((void)0)
#define fprintf(...) ((void)0)
