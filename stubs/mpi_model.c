/* MPI / MPI-IO model (trusted base).  See mpi_model.h and DESIGN 2.2.
 * Every body (a) appends to the ghost trace, (b) returns MPI_SUCCESS or the injected failure,
 * (c) havocs its out-buffers, (d) obeys only the algebra callers rely on. */
#include <config.h>
#include <stdlib.h>
#include <string.h>
#include "mpi_model.h"

int nondet_int(void);
long long nondet_ll(void);
unsigned char nondet_uchar(void);

int g_type_live, g_comm_live, g_info_live, g_file_live;
int g_coll_n; int g_coll_kind[G_COLL_MAX];
int g_io_n; int g_io_kind[G_IO_MAX]; long long g_io_off[G_IO_MAX]; long long g_io_count[G_IO_MAX];
const void *g_io_buf[G_IO_MAX]; MPI_Datatype g_io_type[G_IO_MAX];
int g_nwrites;
int g_fail_at = -1, g_fail_code, g_fail_class, g_io_failed;
int g_view_n, g_view_fail_at = -1, g_sync_fail;
int g_rank, g_nprocs = 1;
long long g_agreed_ll[G_COLL_MAX];
int g_get_count = -1; int g_full_reads;
unsigned char g_file[G_FILE_MAX]; long long g_file_len; int g_file_mode;
long long g_last_got = -1;
long long g_last_io_bytes;
unsigned char g_io_bytes[G_IO_MAX][8];

void mpi_model_reset(void)
{
    g_type_live = g_comm_live = g_info_live = g_file_live = 0;
    g_coll_n = 0; g_io_n = 0; g_nwrites = 0; g_io_failed = 0; g_view_n = 0;
}

static void coll(int kind)
{
    if (g_coll_n < G_COLL_MAX) g_coll_kind[g_coll_n] = kind;
    if (g_coll_n < 1000000) g_coll_n++;
}

/* model of a derived datatype: an integer handle (never dereferenced, so a datatype value that
 * reaches the model through a havocked out-parameter of a replaced callee is harmless); its size in
 * bytes is kept in a ghost table */
#define VT_BASE 0x100000UL
#define VT_STEP 64UL
#define VT_MAX 32
long long g_tsize[VT_MAX];
int g_type_next;
static int vt_index(MPI_Datatype t)
{
    unsigned long a = (unsigned long)t;
    if (a < VT_BASE + VT_STEP || a >= VT_BASE + VT_STEP * VT_MAX || (a - VT_BASE) % VT_STEP != 0) return -1;
    return (int)((a - VT_BASE) / VT_STEP);
}
static long long predefined_size(MPI_Datatype t)
{
    if (t == MPI_BYTE || t == MPI_CHAR || t == MPI_SIGNED_CHAR || t == MPI_UNSIGNED_CHAR) return 1;
    if (t == MPI_SHORT || t == MPI_UNSIGNED_SHORT) return 2;
    if (t == MPI_INT || t == MPI_UNSIGNED || t == MPI_FLOAT) return 4;
    if (t == MPI_LONG || t == MPI_UNSIGNED_LONG || t == MPI_LONG_LONG_INT || t == MPI_LONG_LONG ||
        t == MPI_UNSIGNED_LONG_LONG || t == MPI_DOUBLE || t == MPI_OFFSET || t == MPI_AINT || t == MPI_COUNT) return 8;
    return -1;
}
static long long type_size(MPI_Datatype t)
{
    long long s = predefined_size(t);
    if (s >= 0) return s;
    int k = vt_index(t);
    if (k < 0) return 0;
    return g_tsize[k];
}
static MPI_Datatype new_type(long long size)
{
    if (g_type_next < VT_MAX - 1) g_type_next++;
    g_tsize[g_type_next] = size;
    g_type_live++;
    return (MPI_Datatype)(VT_BASE + VT_STEP * (unsigned long)g_type_next);
}

/* ------------------------------------------------------------------ communicator / process */
int MPI_Comm_rank(MPI_Comm comm, int *rank) { *rank = g_rank; return MPI_SUCCESS; }
int MPI_Comm_size(MPI_Comm comm, int *size) { *size = g_nprocs; return MPI_SUCCESS; }
int MPI_Comm_dup(MPI_Comm comm, MPI_Comm *newcomm)
{
    coll(COLL_COMM_DUP);
    *newcomm = (MPI_Comm)malloc(1); g_comm_live++;
    return MPI_SUCCESS;
}
int MPI_Comm_free(MPI_Comm *comm)
{
    coll(COLL_COMM_FREE);
    free(*comm); *comm = MPI_COMM_NULL; g_comm_live--;
    return MPI_SUCCESS;
}
int MPI_Barrier(MPI_Comm comm) { coll(COLL_BARRIER); return MPI_SUCCESS; }
double MPI_Wtime(void) { return 0.0; }
int MPI_Initialized(int *flag) { *flag = 1; return MPI_SUCCESS; }

static void put_ll(void *p, MPI_Datatype t, int k, long long v)
{
    long long s = predefined_size(t);
    if (s == 4) ((int *)p)[k] = (int)v;
    else if (s == 8) ((long long *)p)[k] = v;
    else if (s == 2) ((short *)p)[k] = (short)v;
    else ((signed char *)p)[k] = (signed char)v;
}
static long long get_ll(const void *p, MPI_Datatype t, int k)
{
    long long s = predefined_size(t);
    if (s == 4) return ((const int *)p)[k];
    if (s == 8) return ((const long long *)p)[k];
    if (s == 2) return ((const short *)p)[k];
    return ((const signed char *)p)[k];
}

int MPI_Allreduce(const void *sendbuf, void *recvbuf, int count, MPI_Datatype datatype, MPI_Op op, MPI_Comm comm)
{
    int idx = g_coll_n;
    coll(COLL_ALLREDUCE);
    const void *src = (sendbuf == MPI_IN_PLACE) ? recvbuf : sendbuf;
    for (int k = 0; k < count; k++) {
        long long mine = get_ll(src, datatype, k), v;
        if (g_nprocs == 1) v = mine;
        else {
            /* the agreed value of this collective (element 0 can be shared by two-copy harnesses) */
            v = (k == 0 && idx < G_COLL_MAX) ? g_agreed_ll[idx] : nondet_ll();
            long long s = predefined_size(datatype);
            if (s == 4) __CPROVER_assume(v >= -2147483647 - 1 && v <= 2147483647);
            if (op == MPI_MAX) __CPROVER_assume(v >= mine);
            else if (op == MPI_MIN) __CPROVER_assume(v <= mine);
            else if (op == MPI_LOR || op == MPI_BOR) __CPROVER_assume(mine == 0 || v != 0);
            else if (op == MPI_LAND) __CPROVER_assume(mine != 0 || v == 0);
        }
        put_ll(recvbuf, datatype, k, v);
    }
    return MPI_SUCCESS;
}
int MPI_Bcast(void *buffer, int count, MPI_Datatype datatype, int root, MPI_Comm comm)
{
    int idx = g_coll_n;
    coll(COLL_BCAST);
    long long sz = type_size(datatype);
    if (count == 1 && (sz == 4 || sz == 8) && predefined_size(datatype) >= 0 && idx < G_COLL_MAX) {
        /* a scalar: every rank ends with the agreed value of this collective, which is the root's */
        if (g_rank == root || g_nprocs == 1) __CPROVER_assume(g_agreed_ll[idx] == get_ll(buffer, datatype, 0));
        else put_ll(buffer, datatype, 0, g_agreed_ll[idx]);
        if (sz == 4) __CPROVER_assume(g_agreed_ll[idx] >= -2147483647 - 1 && g_agreed_ll[idx] <= 2147483647);
    }
    else if (g_rank != root && g_nprocs > 1 && count > 0) {
        long long nb = (long long)count * sz;
        if (nb > 0) __CPROVER_havoc_slice(buffer, nb);
        /* a character buffer broadcast by the library is a NUL-terminated string of count bytes */
        if (datatype == MPI_CHAR) ((char *)buffer)[count - 1] = 0;
    }
    return MPI_SUCCESS;
}

/* ------------------------------------------------------------------ info */
int MPI_Info_create(MPI_Info *info) { *info = (MPI_Info)malloc(1); g_info_live++; return MPI_SUCCESS; }
int MPI_Info_dup(MPI_Info info, MPI_Info *newinfo) { *newinfo = (MPI_Info)malloc(1); g_info_live++; return MPI_SUCCESS; }
int MPI_Info_free(MPI_Info *info) { free(*info); *info = MPI_INFO_NULL; g_info_live--; return MPI_SUCCESS; }
int MPI_Info_set(MPI_Info info, const char *key, const char *value) { return MPI_SUCCESS; }
int MPI_Info_get(MPI_Info info, const char *key, int valuelen, char *value, int *flag)
{
    *flag = nondet_int() ? 1 : 0;
    if (*flag && valuelen >= 1) {
        /* an arbitrary NUL-terminated string of at most 7 characters */
        int n = valuelen < 7 ? valuelen : 7;
        for (int i = 0; i < n; i++) value[i] = (char)nondet_uchar();
        value[n] = 0;
    }
    return MPI_SUCCESS;
}

/* ------------------------------------------------------------------ datatypes */
int MPI_Type_size(MPI_Datatype t, int *size) { *size = (int)type_size(t); return MPI_SUCCESS; }
int MPI_Type_size_x(MPI_Datatype t, MPI_Count *size) { *size = type_size(t); return MPI_SUCCESS; }
int MPI_Type_commit(MPI_Datatype *t) { return MPI_SUCCESS; }
int MPI_Type_free(MPI_Datatype *t)
{
    __CPROVER_assert(predefined_size(*t) < 0 && *t != MPI_DATATYPE_NULL, "model: MPI_Type_free of a predefined or null datatype");
    *t = MPI_DATATYPE_NULL; g_type_live--;
    return MPI_SUCCESS;
}
int MPI_Type_dup(MPI_Datatype old, MPI_Datatype *newt) { *newt = new_type(type_size(old)); return MPI_SUCCESS; }
int MPI_Type_contiguous(int count, MPI_Datatype old, MPI_Datatype *newt) { *newt = new_type((long long)count * type_size(old)); return MPI_SUCCESS; }
int MPI_Type_vector(int count, int bl, int stride, MPI_Datatype old, MPI_Datatype *newt) { *newt = new_type((long long)count * bl * type_size(old)); return MPI_SUCCESS; }
int MPI_Type_create_hvector(int count, int bl, MPI_Aint stride, MPI_Datatype old, MPI_Datatype *newt) { *newt = new_type((long long)count * bl * type_size(old)); return MPI_SUCCESS; }
#ifdef MPI_MODEL_RECORD_HINDEXED
int g_hidx_calls, g_hidx_count; long long g_hidx_bl[MPI_MODEL_RECORD_HINDEXED], g_hidx_disp[MPI_MODEL_RECORD_HINDEXED];
#endif
int MPI_Type_create_hindexed(int count, const int bls[], const MPI_Aint disps[], MPI_Datatype old, MPI_Datatype *newt)
{
#ifdef MPI_MODEL_RECORD_HINDEXED
    /* harnesses that state the file view: the block list of the (last) hindexed type */
    g_hidx_calls++; g_hidx_count = count;
    for (int i = 0; i < MPI_MODEL_RECORD_HINDEXED; i++) if (i < count) { g_hidx_bl[i] = bls[i]; g_hidx_disp[i] = disps[i]; }
#endif
    *newt = new_type(nondet_ll());
    return MPI_SUCCESS;
}
int MPI_Type_create_struct(int count, const int bls[], const MPI_Aint disps[], const MPI_Datatype types[], MPI_Datatype *newt)
{
    *newt = new_type(nondet_ll());
    return MPI_SUCCESS;
}
int MPI_Type_create_subarray(int ndims, const int sizes[], const int subsizes[], const int starts[], int order, MPI_Datatype old, MPI_Datatype *newt)
{
    *newt = new_type(nondet_ll());
    return MPI_SUCCESS;
}
int MPI_Type_create_resized(MPI_Datatype old, MPI_Aint lb, MPI_Aint extent, MPI_Datatype *newt) { *newt = new_type(type_size(old)); return MPI_SUCCESS; }
int MPI_Get_address(const void *location, MPI_Aint *address) { *address = (MPI_Aint)location; return MPI_SUCCESS; }

/* ------------------------------------------------------------------ errors */
int MPI_Error_class(int errorcode, int *errorclass)
{
    /* the injected failure carries the class chosen by the harness; anything else is "other" */
    *errorclass = (errorcode == g_fail_code) ? g_fail_class : MPI_ERR_OTHER;
    return MPI_SUCCESS;
}
int MPI_Error_string(int errorcode, char *string, int *resultlen) { string[0] = 0; *resultlen = 0; return MPI_SUCCESS; }

/* ------------------------------------------------------------------ files */
int MPI_File_open(MPI_Comm comm, const char *filename, int amode, MPI_Info info, MPI_File *fh)
{
    coll(COLL_FILE_OPEN);
    *fh = (MPI_File)malloc(1); g_file_live++;
    return MPI_SUCCESS;
}
int MPI_File_close(MPI_File *fh)
{
    coll(COLL_FILE_CLOSE);
    free(*fh); *fh = MPI_FILE_NULL; g_file_live--;
    return MPI_SUCCESS;
}
int MPI_File_delete(const char *filename, MPI_Info info) { return MPI_SUCCESS; }
int MPI_File_set_size(MPI_File fh, MPI_Offset size) { coll(COLL_FILE_SET_SIZE); return MPI_SUCCESS; }
int MPI_File_get_size(MPI_File fh, MPI_Offset *size) { *size = nondet_ll(); __CPROVER_assume(*size >= 0); return MPI_SUCCESS; }
int MPI_File_get_info(MPI_File fh, MPI_Info *info) { *info = (MPI_Info)malloc(1); g_info_live++; return MPI_SUCCESS; }
int MPI_File_sync(MPI_File fh)
{
    coll(COLL_FILE_SYNC);
    if (g_sync_fail) { g_io_failed = 1; return g_fail_code; }
    return MPI_SUCCESS;
}
int MPI_File_set_view(MPI_File fh, MPI_Offset disp, MPI_Datatype etype, MPI_Datatype filetype, const char *datarep, MPI_Info info)
{
    int idx = g_view_n;
    coll(COLL_FILE_SET_VIEW);
    if (g_view_n < 1000000) g_view_n++;
    if (idx == g_view_fail_at) return g_fail_code;   /* a failing set_view is not a data-transfer failure */
    return MPI_SUCCESS;
}

static int io(int kind, int iscoll, int iswrite, long long off, const void *buf, int count, MPI_Datatype t, MPI_Status *st)
{
    int idx = g_io_n;
    if (iscoll) coll(kind == IO_WRITE_AT_ALL ? COLL_FILE_WRITE_AT_ALL : kind == IO_READ_AT_ALL ? COLL_FILE_READ_AT_ALL :
                     kind == IO_WRITE_ALL ? COLL_FILE_WRITE_ALL : COLL_FILE_READ_ALL);
    if (idx < G_IO_MAX) { g_io_kind[idx] = kind; g_io_off[idx] = off; g_io_count[idx] = count; g_io_buf[idx] = buf; g_io_type[idx] = t; }
    if (g_io_n < 1000000) g_io_n++;
    if (iswrite && g_nwrites < 1000000) g_nwrites++;
    g_last_io_bytes = (long long)count * type_size(t);
    if (iswrite && idx < G_IO_MAX && t == MPI_BYTE && count > 0 && count <= 8 && buf != NULL)
        for (int k = 0; k < 8; k++) g_io_bytes[idx][k] = (k < count) ? ((const unsigned char *)buf)[k] : 0;
    g_last_got = -1;
    if (!iswrite && g_file_mode) {
        /* deterministic file content: copy what exists, report a short read */
        long long got = 0;
        for (long long k = 0; k < g_last_io_bytes; k++) {
            long long o = off + k;
            if (o >= 0 && o < g_file_len && o < G_FILE_MAX) { ((unsigned char *)buf)[k] = g_file[o]; got = k + 1; }
        }
        g_last_got = got;
    }
    else if (!iswrite && count > 0 && g_last_io_bytes > 0 && predefined_size(t) >= 0)
        __CPROVER_havoc_slice((void *)buf, g_last_io_bytes);   /* a read delivers arbitrary bytes */
    if (idx == g_fail_at) { g_io_failed = 1; return g_fail_code; }
    return MPI_SUCCESS;
}
int MPI_File_write_at(MPI_File fh, MPI_Offset off, const void *buf, int count, MPI_Datatype t, MPI_Status *st) { return io(IO_WRITE_AT, 0, 1, off, buf, count, t, st); }
int MPI_File_write_at_all(MPI_File fh, MPI_Offset off, const void *buf, int count, MPI_Datatype t, MPI_Status *st) { return io(IO_WRITE_AT_ALL, 1, 1, off, buf, count, t, st); }
int MPI_File_read_at(MPI_File fh, MPI_Offset off, void *buf, int count, MPI_Datatype t, MPI_Status *st) { return io(IO_READ_AT, 0, 0, off, buf, count, t, st); }
int MPI_File_read_at_all(MPI_File fh, MPI_Offset off, void *buf, int count, MPI_Datatype t, MPI_Status *st) { return io(IO_READ_AT_ALL, 1, 0, off, buf, count, t, st); }
int MPI_File_write_all(MPI_File fh, const void *buf, int count, MPI_Datatype t, MPI_Status *st) { return io(IO_WRITE_ALL, 1, 1, -1, buf, count, t, st); }
int MPI_File_read_all(MPI_File fh, void *buf, int count, MPI_Datatype t, MPI_Status *st) { return io(IO_READ_ALL, 1, 0, -1, buf, count, t, st); }
int MPI_File_write(MPI_File fh, const void *buf, int count, MPI_Datatype t, MPI_Status *st) { return io(IO_WRITE, 0, 1, -1, buf, count, t, st); }
int MPI_File_read(MPI_File fh, void *buf, int count, MPI_Datatype t, MPI_Status *st) { return io(IO_READ, 0, 0, -1, buf, count, t, st); }

int MPI_Get_count(const MPI_Status *status, MPI_Datatype datatype, int *count)
{
    int c = nondet_int();
    long long lim = (datatype == MPI_BYTE) ? g_last_io_bytes : g_last_io_bytes;
    __CPROVER_assume(c >= 0 && (long long)c <= lim);
    *count = (g_last_got >= 0) ? (int)g_last_got : g_full_reads ? (int)g_last_io_bytes : (g_get_count >= 0) ? g_get_count : c;
    return MPI_SUCCESS;
}

/* ------------------------------------------------------------------ pack / unpack
 * Only the bookkeeping is modelled: the packed bytes are arbitrary and the unpacked user buffer is
 * not touched (the extent of a derived datatype is unknown to the model), so nothing that depends
 * on derived-type semantics is ever claimed. */
int MPI_Pack(const void *inbuf, int incount, MPI_Datatype datatype, void *outbuf, int outsize, int *position, MPI_Comm comm)
{
    if (outsize > 0) __CPROVER_havoc_slice(outbuf, outsize);
    *position = outsize;
    return MPI_SUCCESS;
}
int MPI_Unpack(const void *inbuf, int insize, int *position, void *outbuf, int outcount, MPI_Datatype datatype, MPI_Comm comm)
{
    *position = insize;
    return MPI_SUCCESS;
}
