/* front-end substitution (compile TU with -include): Open MPI defines MPI_Aint_add / MPI_Aint_diff as
 * casts through char* ; CBMC's (object, offset) pointer encoding does not carry a borrow from the
 * offset into the object bits, so a negative difference of two addresses would be mis-modelled.  On the
 * real machine both macros are plain 64-bit integer addition / subtraction, which is what is used here. */
#include <mpi.h>
#undef MPI_Aint_add
#undef MPI_Aint_diff
#define MPI_Aint_add(base, disp) ((MPI_Aint)((MPI_Aint)(base) + (MPI_Aint)(disp)))
#define MPI_Aint_diff(addr1, addr2) ((MPI_Aint)((MPI_Aint)(addr1) - (MPI_Aint)(addr2)))
