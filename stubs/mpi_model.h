/* MPI / MPI-IO model used by the contract harnesses (trusted base, DESIGN 2.2).
 * Bodies are in mpi_model.c.  Ghost state below is what contracts talk about. */
#ifndef MPI_MODEL_H
#define MPI_MODEL_H
#include <mpi.h>

/* ---- live-object counters (resource balance, C17) ---- */
extern int g_type_live, g_comm_live, g_info_live, g_file_live;
extern int g_type_next; extern long long g_tsize[32];
/* a value produced by a datatype constructor of the model (or MPI_BYTE etc.): see mpi_model.c */
#define VT_IS_DERIVED(t) ((unsigned long)(t) >= 0x100040UL && (unsigned long)(t) < 0x100000UL + 64UL * 32 && ((unsigned long)(t) - 0x100000UL) % 64UL == 0)

/* ---- collective trace (C08) ---- */
#define G_COLL_MAX 24
enum { COLL_ALLREDUCE = 1, COLL_BCAST, COLL_BARRIER, COLL_FILE_OPEN, COLL_FILE_CLOSE, COLL_FILE_SET_VIEW,
       COLL_FILE_WRITE_AT_ALL, COLL_FILE_READ_AT_ALL, COLL_FILE_WRITE_ALL, COLL_FILE_READ_ALL, COLL_FILE_SYNC,
       COLL_FILE_SET_SIZE, COLL_COMM_DUP, COLL_COMM_FREE, COLL_FILE_DELETE };
extern int g_coll_n;                    /* number of collective calls issued so far */
extern int g_coll_kind[G_COLL_MAX];     /* kind of the i-th collective (first G_COLL_MAX) */

/* ---- data-transfer trace and fault injection (C11, C05, C06, C16) ---- */
#define G_IO_MAX 12
enum { IO_WRITE_AT = 1, IO_WRITE_AT_ALL, IO_READ_AT, IO_READ_AT_ALL, IO_WRITE_ALL, IO_READ_ALL, IO_WRITE, IO_READ };
extern int g_io_n;                      /* number of data-transfer calls issued so far */
extern int g_io_kind[G_IO_MAX];
extern long long g_io_off[G_IO_MAX];    /* explicit offset (or -1) */
extern long long g_io_count[G_IO_MAX];  /* count argument */
extern const void *g_io_buf[G_IO_MAX];
extern MPI_Datatype g_io_type[G_IO_MAX];
extern unsigned char g_io_bytes[G_IO_MAX][8]; /* first bytes handed to a write of <= 8 MPI_BYTEs */
extern long long g_last_io_bytes;
extern int g_nwrites;                   /* number of write-type calls */
extern int g_fail_at;                   /* index of the data-transfer call that fails (-1: none) */
extern int g_fail_code;                 /* the MPI error code it returns (!= MPI_SUCCESS) */
extern int g_fail_class;                /* its MPI error class */
extern int g_io_failed;                 /* set once the failure has been delivered */
extern int g_view_n;                    /* number of MPI_File_set_view calls */
extern int g_view_fail_at;              /* index of the set_view call that fails (-1: none) */
extern int g_sync_fail;                 /* MPI_File_sync fails */

/* ---- file content model (C04, C19): when g_file_mode is set, reads deliver the bytes of g_file
 * (a file of g_file_len bytes); a read beyond the end is short and MPI_Get_count says so ---- */
#ifndef G_FILE_MAX
#define G_FILE_MAX 128
#endif
extern unsigned char g_file[G_FILE_MAX];
extern long long g_file_len;
extern int g_file_mode;
extern long long g_last_got;

/* ---- process / agreement model ---- */
extern int g_rank, g_nprocs;            /* harness sets: 0 <= g_rank < g_nprocs */
extern long long g_agreed_ll[G_COLL_MAX]; /* value every rank receives from the i-th collective (MAX/MIN/Bcast) */
extern int g_get_count;                 /* what MPI_Get_count reports (harness: in [0,count]) ; -1 = echo count */
extern int g_full_reads;                /* reads are never short */
//                 /* what MPI_Get_count reports (harness: in [0,count]) ; -1 = echo count */

/* swap parity of user buffers (C13): ncmpii_in_swapn is real code, nothing modelled here */

void mpi_model_reset(void);
#endif
