/* C15 specification of the per-dimension request rule (DESIGN appendix B.2), written from the
 * netCDF/PnetCDF documentation: for a dimension of length L,
 *   strict mode : 0 <= start <  L
 *   relaxed mode: 0 <= start <= L, and start == L only with count == 0
 *   count >= 0;  no stride: start+count <= L;  stride s>=1: count==0 or start+(count-1)*s < L
 * evaluated in 128-bit arithmetic so that it is the mathematical rule. */
#ifndef REQUEST_SPEC_H
#define REQUEST_SPEC_H
#include "vh.h"
typedef __int128 i128;
typedef long long spec_off;

/* coordinates: 1 = must be accepted, 0 = must be rejected, -1 = documents silent (count<0 with start==L) */
static inline int spec_coord_ok(int strict, spec_off start, spec_off count, spec_off L)
{
    if (start < 0 || start > L) return 0;
    if (start < L) return 1;
    /* start == L */
    if (strict) return 0;
    if (count == 0) return 1;
    if (count > 0) return 0;
    return -1;
}
/* edge rule for count >= 0, 0 <= start <= L, L >= 0.  has_stride: stride given (and >= 1) */
static inline int spec_edge_ok(spec_off start, spec_off count, int has_stride, spec_off stride, spec_off L)
{
    if ((i128)start + (i128)count > (i128)L) return 0;
    if (!has_stride || count == 0) return 1;
    return (i128)start + ((i128)count - 1) * (i128)stride < (i128)L;
}
#endif
