/* Specification helpers for C09 (numeric conversion).  Written from the property
 * statement and the CDF format (external representation = big-endian two's
 * complement / IEEE-754), not from ncx.m4. */
#ifndef CONV_SPEC_H
#define CONV_SPEC_H
#include <stdint.h>

#pragma CPROVER check push
#pragma CPROVER check disable "conversion"
#define IMPLIES(a, b) (!(a) || (b))

static inline uint64_t spec_be(const unsigned char *p, int n)
{
    uint64_t v = 0;
    if (n == 1) return p[0];
    if (n == 2) return ((uint64_t)p[0] << 8) | p[1];
    if (n == 4) return ((uint64_t)p[0] << 24) | ((uint64_t)p[1] << 16) | ((uint64_t)p[2] << 8) | p[3];
    v = ((uint64_t)p[0] << 56) | ((uint64_t)p[1] << 48) | ((uint64_t)p[2] << 40) | ((uint64_t)p[3] << 32) |
        ((uint64_t)p[4] << 24) | ((uint64_t)p[5] << 16) | ((uint64_t)p[6] << 8) | p[7];
    return v;
}
/* native-order (little-endian host, asserted by the harness) read of n bytes */
static inline uint64_t spec_le(const unsigned char *p, int n)
{
    uint64_t v = 0;
    if (n == 1) return p[0];
    if (n == 2) return ((uint64_t)p[1] << 8) | p[0];
    if (n == 4) return ((uint64_t)p[3] << 24) | ((uint64_t)p[2] << 16) | ((uint64_t)p[1] << 8) | p[0];
    v = ((uint64_t)p[7] << 56) | ((uint64_t)p[6] << 48) | ((uint64_t)p[5] << 40) | ((uint64_t)p[4] << 32) |
        ((uint64_t)p[3] << 24) | ((uint64_t)p[2] << 16) | ((uint64_t)p[1] << 8) | p[0];
    return v;
}
static inline int64_t spec_sext(uint64_t v, int bits)
{
    if (bits == 64) return (int64_t)v;
    if (v & ((uint64_t)1 << (bits - 1))) return (int64_t)(v | ~(((uint64_t)1 << bits) - 1));
    return (int64_t)v;
}
static inline float spec_bits2f(uint32_t b) { union { uint32_t u; float f; } x; x.u = b; return x.f; }
static inline double spec_bits2d(uint64_t b) { union { uint64_t u; double f; } x; x.u = b; return x.f; }
static inline uint32_t spec_f2bits(float f) { union { uint32_t u; float f; } x; x.f = f; return x.u; }
static inline uint64_t spec_d2bits(double f) { union { uint64_t u; double f; } x; x.f = f; return x.u; }
static inline int spec_isnan_d(double d) { return d != d; }
static inline int spec_isnan_f(float d) { return d != d; }
#pragma CPROVER check pop
#endif
