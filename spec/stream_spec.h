/* C04/C19: the header as a logical byte stream.  The file is the model's g_file[0..g_file_len)
 * (zero beyond its end, as the library zero-fills short reads); the parser state `bufferinfo`
 * represents stream position  L = offset - chunk + (pos - base)  and must hold, in the unread part
 * of its window, exactly the stream bytes at those positions. */
#ifndef STREAM_SPEC_H
#define STREAM_SPEC_H
#include "mpi_model.h"
#include "vh.h"
/* specification code is not subject to the safety checks (they are for the real code) */
#pragma CPROVER check push
#pragma CPROVER check disable "pointer"
#pragma CPROVER check disable "pointer-primitive"
#pragma CPROVER check disable "pointer-overflow"
#pragma CPROVER check disable "bounds"
#pragma CPROVER check disable "signed-overflow"
#pragma CPROVER check disable "conversion"
#ifndef CHUNK
#define CHUNK 36
#pragma CPROVER check pop
#endif
/* NOTE: spec functions must not call other functions: DFCC adds a write-set parameter to every
 * function and does not rewrite nested calls inside contract-clause functions ("not enough
 * arguments, inserting non-deterministic value") - so one level of function only, the rest macros. */
#define FILEB(i) ((unsigned char)((((long long)(i)) >= 0 && ((long long)(i)) < g_file_len && ((long long)(i)) < G_FILE_MAX) ? g_file[(long long)(i)] : 0))
static inline long long spec_L(const bufferinfo *g) { return g->offset - g->chunk + (g->pos - g->base); }
static inline int spec_stream_inv(const bufferinfo *g)
{
    if (g->chunk != CHUNK || g->base == NULL || g->end != g->base + CHUNK) return 0;
    if (g->pos < g->base || g->pos > g->end) return 0;
    if (g->offset < CHUNK || g->offset > G_FILE_MAX) return 0;
    if (g->get_size < 0 || g->get_size > ((long long)1 << 40)) return 0;
    for (int k = 0; k < CHUNK; k++)
        if (k >= g->pos - g->base && (unsigned char)g->base[k] != FILEB(g->offset - CHUNK + k)) return 0;
    return 1;
}
static inline unsigned long long spec_stream_be(long long L, int n)
{
    unsigned long long v = 0;
    for (int k = 0; k < 8; k++) if (k < n) v = (v << 8) | FILEB(L + k);
    return v;
}
#pragma CPROVER check pop
#endif
